#!/usr/bin/env python3-vt
"""U16 verification-condition generator (run with python3-vt: needs the z3 bindings).

  python3-vt vcgen.py --prelude /repo/modules/prelude.abra [--tier quick|thorough] [--scratch DIR]

Cuts the `implement Equal/Ord/Hash for {bool, void, int, float, string, tuples 2-4}` blocks and
`fn hash_combine` out of the given prelude.abra BY NAME (abra_subset.Prelude), symbolically evaluates
the loop-free function bodies, and sends one query per law to Z3: assumptions AND NOT(law) must be
UNSAT.  Prints one JSON document on stdout.  Anything it cannot parse / evaluate => "undecided".
"""
import argparse
import itertools
import json
import os
import subprocess
import sys
import time

import z3

HERE = os.path.dirname(os.path.abspath(__file__))
sys.path.insert(0, HERE)
import abra_subset as AS  # noqa: E402
from abra_subset import Unsupported  # noqa: E402
import laws as LW  # noqa: E402

DISCHARGED, FAILED, UNDECIDED = "discharged", "failed", "undecided"

INT = z3.BitVecSort(64)
VOID, (NIL,) = z3.EnumSort('Void', ['nil'])

IFACES = {
    'Equal': {'equal': 2},
    'Ord': {'less_than': 2, 'less_than_or_equal': 2, 'greater_than': 2, 'greater_than_or_equal': 2},
    'Hash': {'hash': 1},
}
OP_METHOD = {'==': ('Equal', 'equal'), '<': ('Ord', 'less_than'), '<=': ('Ord', 'less_than_or_equal'),
             '>': ('Ord', 'greater_than'), '>=': ('Ord', 'greater_than_or_equal')}

# VM intrinsics on int, interpreted by the specification the VM-arm units prove for them
# (U1: EqualInt/LessThanInt/... = mathematical comparison of the i64 operands; WrappingAdd/WrappingMul =
# i64::wrapping_add / wrapping_mul, i.e. arithmetic modulo 2^64).
INT_INTRINSICS = {
    'equal_int': lambda a, b: a == b,
    'less_than_int': lambda a, b: a < b,            # BitVecRef `<` is signed
    'less_than_or_equal_int': lambda a, b: a <= b,
    'greater_than_int': lambda a, b: a > b,
    'greater_than_or_equal_int': lambda a, b: a >= b,
    'wrapping_add': lambda a, b: a + b,
    'wrapping_mul': lambda a, b: a * b,
}
INLINED_FREE_FNS = ('hash_combine',)
RESERVED = set(INT_INTRINSICS) | set(INLINED_FREE_FNS) | set(IFACES)


class Z3Logic:
    and_ = staticmethod(lambda *a: z3.And(*a))
    or_ = staticmethod(lambda *a: z3.Or(*a))
    not_ = staticmethod(z3.Not)
    implies = staticmethod(z3.Implies)
    iff = staticmethod(lambda a, b: a == b)
    same = staticmethod(lambda a, b: a == b)


def kind(v):
    if isinstance(v, tuple):
        return 'tuple%d' % len(v)
    s = v.sort()
    if s == z3.BoolSort():
        return 'bool'
    if s == INT:
        return 'int'
    if s == VOID:
        return 'void'
    if s.kind() == z3.Z3_UNINTERPRETED_SORT:
        return 'T'
    raise Unsupported("value of unexpected sort %s" % s)


def same_type(a, b):
    if isinstance(a, tuple) or isinstance(b, tuple):
        return (isinstance(a, tuple) and isinstance(b, tuple) and len(a) == len(b)
                and all(same_type(x, y) for x, y in zip(a, b)))
    return a.sort() == b.sort()


def ite(c, a, b):
    if not same_type(a, b):
        raise Unsupported("branches of different types")
    if isinstance(a, tuple):
        return tuple(ite(c, x, y) for x, y in zip(a, b))
    return z3.If(c, a, b)


class Evaluator:
    """Symbolic evaluation of the accepted subset.  All functions it meets are pure and total
    (no loops, no panicking operation is in the subset), so `and`/`or` short-circuiting and
    early `return` are exactly if-then-else on values."""

    MAX_DEPTH = 12

    def __init__(self, prelude):
        self.p = prelude
        self.ufs = {}
        self.used = {}          # header -> sha of every block inlined for the current obligation
        self.opcodes = set()    # VM opcodes whose specification was used

    # -- uninterpreted component operations
    def uf(self, op, sort):
        k = (op, sort.name())
        if k not in self.ufs:
            if op == 'hash':
                self.ufs[k] = z3.Function('%s_%s' % (op, sort.name()), sort, INT)
            else:
                self.ufs[k] = z3.Function('%s_%s' % (op, sort.name()), sort, sort, z3.BoolSort())
        return self.ufs[k]

    # -- dispatch
    def call_iface(self, iface, method, args, depth):
        if iface not in IFACES or method not in IFACES[iface]:
            raise Unsupported("call %s.%s is outside the subset" % (iface, method))
        if len(args) != IFACES[iface][method]:
            raise Unsupported("%s.%s expects %d arguments" % (iface, method, IFACES[iface][method]))
        if len(args) == 2 and not same_type(args[0], args[1]):
            raise Unsupported("%s.%s on operands of different types" % (iface, method))
        k = kind(args[0])
        if k == 'T':
            return self.uf(method, args[0].sort())(*args)
        impl = self.p.impl(iface, k)
        fn = impl['fns'].get(method)
        if fn is None:
            raise Unsupported("%s has no method %s" % (impl['header'], method))
        self.used[impl['header']] = impl['sha']
        return self.apply(fn, args, depth + 1, impl['header'])

    def binop(self, op, l, r, depth):
        if op in ('and', 'or'):
            if kind(l) != 'bool' or kind(r) != 'bool':
                raise Unsupported("`%s` on non-bool" % op)
            return z3.And(l, r) if op == 'and' else z3.Or(l, r)
        if op == '!=':
            # translate_bytecode.rs: NotEqual = the code for Equal followed by Instr::Not
            return z3.Not(self.binop('==', l, r, depth))
        if not same_type(l, r):
            raise Unsupported("`%s` on operands of different types" % op)
        k = kind(l)
        if k == 'bool' and op == '==':
            self.opcodes.add('EqualBool')
            return l == r
        if k == 'int':
            self.opcodes.add({'==': 'EqualInt', '<': 'LessThanInt', '<=': 'LessThanOrEqualInt',
                              '>': 'GreaterThanInt', '>=': 'GreaterThanOrEqualInt'}[op])
            return {'==': lambda: l == r, '<': lambda: l < r, '<=': lambda: l <= r,
                    '>': lambda: l > r, '>=': lambda: l >= r}[op]()
        iface, method = OP_METHOD[op]
        return self.call_iface(iface, method, [l, r], depth)

    def call_free(self, name, args, depth):
        if name in INT_INTRINSICS:
            if len(args) != 2 or any(kind(a) != 'int' for a in args):
                raise Unsupported("intrinsic %s on non-int operands" % name)
            self.opcodes.add(name)
            return INT_INTRINSICS[name](*args)
        if name in INLINED_FREE_FNS:
            f = self.p.free_fn(name)
            self.used['fn ' + name] = f['sha']
            return self.apply(f['fn'], args, depth + 1, 'fn ' + name)
        raise Unsupported("call to `%s`, which is not an interface method, a known int intrinsic or hash_combine" % name)

    def apply(self, fn, args, depth, where):
        if depth > self.MAX_DEPTH:
            raise Unsupported("call depth exceeded (recursion?) in %s" % where)
        if len(fn.params) != len(args):
            raise Unsupported("%s.%s: arity mismatch" % (where, fn.name))
        env = {}
        for p, t, a in zip(fn.params, fn.ptypes, args):
            if p in RESERVED:
                raise Unsupported("parameter `%s` shadows a name the evaluator interprets" % p)
            if t in ('int', 'bool', 'void') and kind(a) != t:
                raise Unsupported("%s.%s: argument `%s` is not %s" % (where, fn.name, p, t))
            if t in ('float', 'string'):
                raise Unsupported("%s.%s: %s parameters are outside the subset" % (where, fn.name, t))
            env[p] = [a, False, 0]
        v = self.tail_expr(fn.body, env, depth, True, [0])
        if fn.ret in ('int', 'bool', 'void') and kind(v) != fn.ret:
            raise Unsupported("%s.%s: result is not %s" % (where, fn.name, fn.ret))
        return v

    # -- expressions
    def eval(self, e, env, depth, ctr):
        k = e[0]
        if k == 'var':
            if e[1] not in env:
                raise Unsupported("unknown identifier `%s`" % e[1])
            return env[e[1]][0]
        if k == 'int':
            if not (-(1 << 63) <= e[1] < (1 << 63)):
                raise Unsupported("integer literal out of range")
            return z3.BitVecVal(e[1], 64)
        if k == 'bool':
            return z3.BoolVal(e[1])
        if k == 'nil':
            return NIL
        if k == 'not':
            v = self.eval(e[1], env, depth, ctr)
            if kind(v) != 'bool':
                raise Unsupported("`not` on non-bool")
            return z3.Not(v)
        if k == 'binop':
            return self.binop(e[1], self.eval(e[2], env, depth, ctr), self.eval(e[3], env, depth, ctr), depth)
        if k == 'call':
            if e[1] in env:
                raise Unsupported("call of a local value `%s`" % e[1])
            return self.call_free(e[1], [self.eval(a, env, depth, ctr) for a in e[2]], depth)
        if k == 'icall':
            if e[1] in env:
                raise Unsupported("method call on a local value `%s`" % e[1])
            return self.call_iface(e[1], e[2], [self.eval(a, env, depth, ctr) for a in e[3]], depth)
        if k == 'tuple':
            return tuple(self.eval(a, env, depth, ctr) for a in e[1])
        if k in ('if', 'block'):
            return self.tail_expr(e, env, depth, False, ctr)
        raise Unsupported("expression form %s" % k)

    def tail_expr(self, e, env, depth, allow_return, ctr):
        """Value of `e` in a position whose value is the value of the enclosing construct.
        allow_return: that construct is the function body, so `return v` there means `v`."""
        if e[0] == 'block':
            ctr[0] += 1
            return self.tail_block(e[1], 0, dict((n, list(v)) for n, v in env.items()), depth, allow_return, ctr, ctr[0])
        if e[0] == 'if':
            c = self.eval(e[1], env, depth, ctr)
            if kind(c) != 'bool':
                raise Unsupported("`if` condition is not bool")
            if e[3] is None:
                raise Unsupported("`if` without `else` in value position")
            return ite(c, self.tail_stmt(e[2], env, depth, allow_return, ctr),
                       self.tail_stmt(e[3], env, depth, allow_return, ctr))
        return self.eval(e, env, depth, ctr)

    def tail_stmt(self, s, env, depth, allow_return, ctr):
        if s[0] == 'expr':
            return self.tail_expr(s[1], env, depth, allow_return, ctr)
        if s[0] == 'return':
            if not allow_return:
                raise Unsupported("`return` inside a sub-expression")
            return self.eval(s[1], env, depth, ctr)
        raise Unsupported("`%s` statement as an if-branch" % s[0])

    @staticmethod
    def returned_value(s):
        """`return v` or `{ return v }` -> v, else None."""
        if s[0] == 'return':
            return s[1]
        if s[0] == 'expr' and s[1][0] == 'block' and len(s[1][1]) == 1 and s[1][1][0][0] == 'return':
            return s[1][1][0][1]
        return None

    def tail_block(self, stmts, i, env, depth, allow_return, ctr, bid):
        n = len(stmts)
        while i < n:
            s = stmts[i]
            last = (i == n - 1)
            if s[0] == 'let':
                v = self.eval(s[3], env, depth, ctr)
                pat = s[2]
                if pat[0] == 'pvar':
                    names, vals = [pat[1]], [v]
                elif pat[0] == 'pwild':
                    names, vals = [], []
                else:
                    if not isinstance(v, tuple) or len(v) != len(pat[1]):
                        raise Unsupported("tuple pattern of arity %d against %s" % (len(pat[1]), kind(v)))
                    names, vals = pat[1], list(v)
                for nm, val in zip(names, vals):
                    if nm is None:
                        continue
                    if nm in RESERVED:
                        raise Unsupported("binding `%s` shadows a name the evaluator interprets" % nm)
                    env[nm] = [val, s[1], bid]
            elif s[0] == 'assign':
                if s[1] not in env or not env[s[1]][1]:
                    raise Unsupported("assignment to `%s`, which is not a `var` in scope" % s[1])
                if env[s[1]][2] != bid:
                    raise Unsupported("assignment to a variable of an enclosing block")
                v = self.eval(s[2], env, depth, ctr)
                if not same_type(v, env[s[1]][0]):
                    raise Unsupported("assignment changes the type of `%s`" % s[1])
                env[s[1]][0] = v
            elif s[0] == 'return':
                if not allow_return:
                    raise Unsupported("`return` inside a sub-expression")
                if not last:
                    raise Unsupported("statements after `return`")
                return self.eval(s[1], env, depth, ctr)
            elif s[0] == 'expr':
                if last:
                    return self.tail_expr(s[1], env, depth, allow_return, ctr)
                e = s[1]
                rv = self.returned_value(e[2]) if (e[0] == 'if' and e[3] is None) else None
                if rv is None:
                    raise Unsupported("statement `%s` is neither a binding nor `if c return v`" % AS.show(e)[:60])
                if not allow_return:
                    raise Unsupported("`return` inside a sub-expression")
                c = self.eval(e[1], env, depth, ctr)
                if kind(c) != 'bool':
                    raise Unsupported("`if` condition is not bool")
                r = self.eval(rv, env, depth, ctr)
                return ite(c, r, self.tail_block(stmts, i + 1, env, depth, allow_return, ctr, bid))
            else:
                raise Unsupported("statement form %s" % s[0])
            i += 1
        raise Unsupported("block without a final value")


# ----------------------------------------------------------------------------- obligations

TYPES = ['bool', 'void', 'tuple2', 'tuple3', 'tuple4']


def make_vars(tkey, names):
    """-> {name: value}, component sorts (for tuples)"""
    if tkey == 'bool':
        return {n: z3.Bool(n) for n in names}, []
    if tkey == 'void':
        return {n: z3.Const(n, VOID) for n in names}, []
    if tkey == 'int':
        return {n: z3.BitVec(n, 64) for n in names}, []
    k = int(tkey[5:])
    sorts = [z3.DeclareSort('T%d' % (i + 1)) for i in range(k)]
    return {n: tuple(z3.Const('%s%d' % (n, i + 1), sorts[i]) for i in range(k)) for n in names}, sorts


def component_contract(ev, sorts, vars_):
    """The contract on each component type T: T's own equal/lt/le/gt/ge/hash satisfy every law of
    laws.LAWS.  Instantiated at all ground terms of sort T in the query (the constants x_i, y_i, z_i):
    the only T-sorted terms are these constants (every function of the vocabulary returns bool or int),
    so the ground instances are equivalent to the quantified axioms for this query, and a model of them
    is a genuine counter-model."""
    out = []
    for i, sort in enumerate(sorts):
        consts = [v[i] for v in vars_.values()]

        def A(kindname, *cs):
            if kindname == 'hash':
                return ev.uf('hash', sort)(cs[0])
            meth = LW.METHOD_OF_ATOM['eq' if kindname == 'opeq' else kindname]
            return ev.uf(meth, sort)(*cs)
        for name, lvars, fn, _ in LW.LAWS:
            for combo in itertools.product(consts, repeat=len(lvars)):
                m = dict(zip(lvars, combo))
                out.append(fn(lambda k, *vs: A(k, *[m[v] for v in vs]), Z3Logic))
    return out


def atom_value(ev, vars_, k, vs):
    args = [vars_[v] for v in vs]
    if k == 'eq':
        return ev.call_iface('Equal', 'equal', args, 0)
    if k == 'opeq':
        return ev.binop('==', args[0], args[1], 0)
    if k == 'hash':
        return ev.call_iface('Hash', 'hash', args, 0)
    return ev.binop({'lt': '<', 'le': '<=', 'gt': '>', 'ge': '>='}[k], args[0], args[1], 0)


def model_value(m, tkey, v):
    if tkey == 'bool':
        return bool(z3.is_true(m.eval(v, model_completion=True)))
    if tkey == 'void':
        return 'nil'
    if tkey == 'int':
        return m.eval(v, model_completion=True).as_signed_long()
    return None


def tuple_ranks(ev, m, sorts, vars_):
    """Realise the abstract component values by ints: the model restricted to the constants of sort
    T_i is a total preorder (the contract instances hold), so map each constant to the number of
    equivalence classes strictly below it.  int is a lawful instance of the contract."""
    names = list(vars_)
    vals = {n: [] for n in names}
    for i, sort in enumerate(sorts):
        eq, lt = ev.uf('equal', sort), ev.uf('less_than', sort)
        consts = [vars_[n][i] for n in names]
        truth = lambda t: bool(z3.is_true(m.eval(t, model_completion=True)))  # noqa: E731
        reps = []
        for c in consts:
            if not any(truth(eq(c, r)) for r in reps):
                reps.append(c)
        for n, c in zip(names, consts):
            vals[n].append(sum(1 for r in reps if truth(lt(r, c))))
    return vals


def check_law(prelude, tkey, law, want_smt2=False):
    name, lvars, fn, stmt = law
    ev = Evaluator(prelude)
    t0 = time.time()
    rec = dict(type=tkey, law=name, statement=stmt, vars=list(lvars))
    try:
        vars_, sorts = make_vars(tkey, lvars)
        atoms = {}

        def A(k, *vs):
            key = (k,) + tuple(vs)
            if key not in atoms:
                atoms[key] = atom_value(ev, vars_, k, vs)
            return atoms[key]
        goal = fn(A, Z3Logic)
        assumptions = component_contract(ev, sorts, vars_) if sorts else []
        s = z3.Solver()
        s.set('timeout', 20000)
        for a in assumptions:
            s.add(a)
        s.add(z3.Not(goal))
        r = s.check()
        rec['blocks'] = dict(ev.used)
        rec['opcodes'] = sorted(ev.opcodes)
        rec['n_assumptions'] = len(assumptions)
        rec['goal'] = str(goal)[:700]
        if want_smt2:
            rec['smt2'] = "(set-logic ALL)\n" + s.to_smt2()
        if r == z3.unsat:
            rec['status'] = DISCHARGED
            rec['detail'] = ""
        elif r == z3.sat:
            m = s.model()
            if tkey == 'bool':
                # finite domain: enumerate every counterexample, report the one with most `true`s first
                models = []
                while s.check() == z3.sat and len(models) < 8:
                    mm = s.model()
                    models.append(mm)
                    s.add(z3.Or(*[v != mm.eval(v, model_completion=True) for v in vars_.values()]))
                models.sort(key=lambda mm: [not z3.is_true(mm.eval(v, model_completion=True)) for v in vars_.values()])
                m = models[0]
                rec['all_cex'] = [{n: model_value(mm, tkey, v) for n, v in vars_.items()} for mm in models]
            if sorts:
                cex = tuple_ranks(ev, m, sorts, vars_)
                cex = {n: tuple(v) for n, v in cex.items()}
            else:
                cex = {n: model_value(m, tkey, v) for n, v in vars_.items()}
            av = {}
            for key, term in atoms.items():
                val = m.eval(term, model_completion=True)
                av[LW.ABRA_ATOM[key[0]](*key[1:])] = (val.as_signed_long() if z3.is_bv(val) else bool(z3.is_true(val)))
            rec['status'] = FAILED
            rec['cex'] = cex
            rec['atom_values'] = av
            rec['detail'] = ("law refuted by z3 (sat): %s; counterexample %s; the prelude functions give %s"
                             % (stmt, ", ".join("%s=%s" % (n, fmt_val(v)) for n, v in cex.items()),
                                ", ".join("%s = %s" % (a, fmt_val(v)) for a, v in av.items())))
            if rec.get('all_cex') and len(rec['all_cex']) > 1:
                rec['detail'] += "; all counterexamples: " + "; ".join(
                    ", ".join("%s=%s" % (n, fmt_val(v)) for n, v in c.items()) for c in rec['all_cex'])
        else:
            rec['status'] = UNDECIDED
            rec['detail'] = "z3 returned unknown: %s" % s.reason_unknown()
    except Unsupported as e:
        rec['status'] = UNDECIDED
        rec['detail'] = "outside the accepted Abra subset / block not found: %s" % e
        rec['blocks'] = dict(ev.used)
    rec['time_s'] = time.time() - t0
    return rec


def fmt_val(v):
    if v is True:
        return 'true'
    if v is False:
        return 'false'
    if isinstance(v, (tuple, list)):
        return '(%s)' % ', '.join(fmt_val(x) for x in v)
    return str(v)


def check_delegation(prelude, ty, iface, method, intrinsic):
    """SYNTACTIC obligation: the prelude method for int/float/string is exactly
    `fn method(a, b) = <method>_<ty>(a, b)`; the lawfulness of that intrinsic is a VM-arm obligation."""
    rec = dict(type=ty, law='%s_delegates' % method, syntactic=True,
               statement="SYNTACTIC: `implement %s for %s` defines %s(a, b) as exactly %s(a, b) (same argument order); "
                         "the laws for %s are discharged on the VM arm of that intrinsic in the VM units" % (iface, ty, method, intrinsic, ty),
               vars=['x', 'y'], expected_intrinsic=intrinsic, method=method, iface=iface)
    t0 = time.time()
    try:
        impl = prelude.impl(iface, ty)
        rec['blocks'] = {impl['header']: impl['sha']}
        fn = impl['fns'].get(method)
        if fn is None:
            raise Unsupported("%s has no method %s" % (impl['header'], method))
        body = fn.body
        if body[0] == 'block' and len(body[1]) == 1 and body[1][0][0] in ('expr', 'return'):
            body = body[1][0][1]
        rec['goal'] = "fn %s(%s) = %s" % (method, ", ".join(fn.params), AS.show(body))
        want = ('call', intrinsic, [('var', p) for p in fn.params])
        family = [i for _, _, i in LW.DELEGATION[ty]]
        if len(fn.params) == 2 and body == want:
            rec['status'], rec['detail'] = DISCHARGED, ""
        elif (len(fn.params) == 2 and body[0] == 'call' and body[1] in family and len(body[2]) == 2
              and all(a[0] == 'var' and a[1] in fn.params for a in body[2])):
            rec['status'] = FAILED
            rec['detail'] = ("prelude %s.%s for %s is `%s`, expected `%s(%s)`: it delegates to a different comparison"
                             % (iface, method, ty, AS.show(body), intrinsic, ", ".join(fn.params)))
        else:
            rec['status'] = UNDECIDED
            rec['detail'] = "body `%s` is not a direct delegation to a %s comparison intrinsic" % (AS.show(body)[:120], ty)
    except Unsupported as e:
        rec['status'] = UNDECIDED
        rec['detail'] = "outside the accepted Abra subset / block not found: %s" % e
    rec['time_s'] = time.time() - t0
    return rec


def cvc5_cross_check(recs, scratch):
    n = agree = 0
    for r in recs:
        smt = r.pop('smt2', None)
        if not smt or r['status'] not in (DISCHARGED, FAILED):
            continue
        path = os.path.join(scratch, "%s.%s.smt2" % (r['type'], r['law']))
        with open(path, 'w') as f:
            f.write(smt)
        try:
            p = subprocess.run(['cvc5', '--lang=smt2', '--tlimit=20000', path], capture_output=True, text=True, timeout=40)
            ans = p.stdout.strip().split('\n')[0] if p.stdout.strip() else ('error: ' + p.stderr[:200])
        except Exception as ex:  # pragma: no cover
            ans = 'error: %s' % ex
        r['cvc5'] = ans
        n += 1
        want = 'unsat' if r['status'] == DISCHARGED else 'sat'
        if ans == want:
            agree += 1
        else:
            r['detail'] = "solver disagreement: z3 says %s, cvc5 says %s. %s" % (want, ans, r.get('detail', ''))
            r['status'] = UNDECIDED
    return dict(queries=n, agree=agree)


# ----------------------------------------------------------------------------- differential fidelity test

def _lit(v):
    if isinstance(v, tuple):
        return "(%s)" % ", ".join(_lit(x) for x in v)
    if v is True:
        return "true"
    if v is False:
        return "false"
    if v == 'nil':
        return "nil"
    return str(v)


def _z(v):
    if isinstance(v, tuple):
        return tuple(_z(x) for x in v)
    if v is True or v is False:
        return z3.BoolVal(v)
    if v == 'nil':
        return NIL
    return z3.BitVecVal(v, 64)


def concrete_cases():
    b = [False, True]
    i = [0, 1]
    return [
        ('bool', b),
        ('void', ['nil']),
        ('tuple2(int,bool)', [(x, y) for x in i for y in b]),
        ('tuple2(bool,void)', [(x, 'nil') for x in b]),
        ('tuple3(int,int,int)', [(x, y, w) for x in i for y in i for w in i]),
        ('tuple4(int,bool,int,int)', [(x, y, w, u) for x in i for y in b for w in i for u in i]),
        ('tuple2((int,int),int)', [((x, y), w) for x in i for y in i for w in i]),
    ]


def concrete(prelude_path):
    """Evaluate every atom on small CONCRETE values with the same parser/evaluator and emit the Abra
    program that asks the real CLI the same questions: a differential test of this generator against
    the real implementation (components int/bool/void/nested tuples go through the prelude impls)."""
    out = dict(program="", expected=[], questions=[])
    try:
        prelude = AS.Prelude(prelude_path)
        ev = Evaluator(prelude)
        lines = []
        for label, vals in concrete_cases():
            for x in vals:
                t = z3.simplify(atom_value(ev, {'x': _z(x)}, 'hash', ('x',)))
                lines.append((LW.ABRA_ATOM['hash'](_lit(x)), str(t.as_signed_long())))
                for y in vals:
                    for k in ('eq', 'opeq', 'lt', 'le', 'gt', 'ge'):
                        t = z3.simplify(atom_value(ev, {'x': _z(x), 'y': _z(y)}, k, ('x', 'y')))
                        if not (z3.is_true(t) or z3.is_false(t)):
                            raise Unsupported("concrete evaluation did not reduce to a value: %s" % t)
                        lines.append((LW.ABRA_ATOM[k](_lit(x), _lit(y)), 'true' if z3.is_true(t) else 'false'))
        out['program'] = "".join("println(%s)\n" % q for q, _ in lines)
        out['expected'] = [e for _, e in lines]
        out['questions'] = [q for q, _ in lines]
    except Unsupported as e:
        out['fatal'] = str(e)
    return out


def analyse(prelude_path, tier='quick', scratch=None, only=None, canaries=True, arrays=True, loops=0, array_laws=0):
    t0 = time.time()
    out = dict(prelude=prelude_path, z3=z3.get_version_string(), obligations=[], canaries=[], notes={})
    try:
        prelude = AS.Prelude(prelude_path)
    except (Unsupported, OSError) as e:
        out['fatal'] = "cannot read/mask %s: %s" % (prelude_path, e)
        return out
    out['prelude_sha'] = AS.sha(prelude.src)
    thorough = bool(tier == 'thorough' and scratch)
    recs = []
    for tkey in TYPES:
        for law in LW.LAWS + LW.EXTRA_LAWS.get(tkey, []):
            recs.append(check_law(prelude, tkey, law, want_smt2=thorough))
    # int: Hash is in the subset (identity); Equal/Ord delegate (syntactic)
    recs.append(check_law(prelude, 'int', LW.LAW_BY_NAME['hash_respects_equal'], want_smt2=thorough))
    for ty in ('int', 'float', 'string'):
        for iface, method, intrinsic in LW.DELEGATION[ty]:
            recs.append(check_delegation(prelude, ty, iface, method, intrinsic))
    if only:
        recs = [r for r in recs if "%s.%s" % (r['type'], r['law']) == only]
    # vacuity canaries: every one must be refuted (sat)
    vac = []
    if canaries:
        for tkey in TYPES:
            for law in LW.CANARIES:
                c = check_law(prelude, tkey, law)
                out['canaries'].append(dict(type=tkey, law=c['law'], status=c['status']))
                if c['status'] == DISCHARGED:
                    vac.append(tkey)
    for r in recs:
        if r['type'] in vac and r['status'] == DISCHARGED and not r.get('syntactic'):
            r['status'] = UNDECIDED
            r['detail'] = "vacuity canary: a false law was 'proved' for %s (contradictory assumptions or a degenerate evaluation)" % r['type']
    if thorough:
        out['notes']['cvc5'] = cvc5_cross_check(recs, scratch)
    for r in recs:
        r.pop('smt2', None)
    out['obligations'] = recs
    # blocks we deliberately do not claim
    out['notes']['not_claimed'] = [
        "implement Equal for array<T Equal> (for loop): outside the loop-free subset",
        "implement Hash for array<T Hash> (for loop): outside the loop-free subset",
        "implement Hash for string (FNV-1a for loop): outside the loop-free subset",
    ]
    if arrays and not only:
        import vcarray
        out['array'] = vcarray.analyse_array(prelude_path, with_canaries=canaries)
    if loops and not only:
        # C26, BOUNDED: clear / find / contains / filled / clone / iteration by bounded unrolling (lengths 0..loops)
        import vcloops
        out['loops'] = vcloops.analyse_loops(prelude_path, loops, with_canaries=canaries)
    if array_laws and not only:
        # C24, BOUNDED: laws of `implement Equal / Hash for array<T>` by bounded unrolling (lengths 0..array_laws)
        import vcloops
        out['array_laws'] = vcloops.analyse_array_laws(prelude_path, array_laws, with_canaries=canaries)
    out['notes']['wall_s'] = round(time.time() - t0, 3)
    return out


def main():
    ap = argparse.ArgumentParser()
    ap.add_argument('--prelude', required=True)
    ap.add_argument('--tier', default='quick')
    ap.add_argument('--scratch')
    ap.add_argument('--only', help="type.law filter (replay)")
    ap.add_argument('--concrete', action='store_true', help="emit the differential fidelity test instead")
    ap.add_argument('--loops', type=int, default=0, help="C26 bounded unrolling of the loop-containing array members: list lengths 0..N")
    ap.add_argument('--array-laws', type=int, default=0, help="C24 bounded unrolling of Equal / Hash for array<T>: lengths 0..N")
    ap.add_argument('--only-loops', action='store_true', help="run nothing but the bounded loop obligations (replay)")
    args = ap.parse_args()
    if args.concrete:
        import vcarray
        d = concrete(args.prelude)
        d['array'] = vcarray.concrete_array(args.prelude)
        print(json.dumps(d))
        return 0
    if args.only_loops:
        import vcloops
        d = {}
        if args.loops or not args.array_laws:
            d['loops'] = vcloops.analyse_loops(args.prelude, args.loops or 4, with_canaries=False)
        if args.array_laws:
            d['array_laws'] = vcloops.analyse_array_laws(args.prelude, args.array_laws, with_canaries=False)
        print(json.dumps(d))
        return 0
    print(json.dumps(analyse(args.prelude, args.tier, args.scratch, args.only, loops=args.loops, array_laws=args.array_laws)))
    return 0


if __name__ == '__main__':
    sys.exit(main())
