"""U16: lawfulness of the prelude's Equal / Ord / Hash implementations (property C24).

No deductive verifier accepts Abra, so this unit is a small verification-condition generator of
our own for the LOOP-FREE subset those impls are written in:

  abra_subset.py  cuts `implement Equal/Ord/Hash for {bool, void, int, float, string, (T1,T2)..(T1..T4)}`
                  and `fn hash_combine` out of the REAL modules/prelude.abra by name on every run and
                  parses them with a recursive-descent parser that mirrors abra_core/src/parse.rs;
                  anything outside the subset => UNDECIDED.
  vcgen.py        (python3-vt, z3 bindings) symbolic evaluation + one Z3 query per law (laws.py);
                  vacuity canaries; cvc5 cross-check of every query in the thorough tier.
  laws.py         the C24 laws, written once; also used as the assumed contract on tuple component
                  types and to judge the real CLI's answers in replay.

  vcarray.py      (C26) imperative evaluator for the loop-free members of `extend array<T>` (len, is_empty, push,
                  pop, swap, remove; bounds syntactically): state (array, length, error) threaded through the
                  statements, primitives by the contracts proved in units/u5_array, specs = reference list model.
  arrays.py       (C26) plain-python side: obligations, codegen shape checks, Python list model, replay, fidelity.
  vcloops.py      (C26, BOUNDED) the members WITH loops (clear, find, contains, filled, Clone for array, iteration = Iterable for
                  array + Iterator for ArrayIterator): the parser's `loops` mode + a forking symbolic interpreter over the parsed real
                  text with a heap of objects; concrete list lengths 0..N (4 quick / 6 thorough), symbolic elements, loops unrolled
                  at most N+1 times with an unwinding assertion; one Z3 query per path against the list model.  Never "proved".
  loopmodel.py    the list model of those members in plain Python (from the property); arrays_loops.py: obligations + replay.

This module is imported by tools/check.py under plain python3 and talks to vcgen.py through a
subprocess that prints JSON.  ABRA_REPO selects the tree that is read (default /repo).
"""
import json
import os
import re
import subprocess
import time

import engine as E
import abra_cli
from . import laws as LW
from . import arrays as AR
from . import arrays_loops as AL

HERE = os.path.dirname(os.path.abspath(__file__))
UNIT = "U16-prelude"
PRELUDE_REL = "modules/prelude.abra"
TB_REL = "abra_core/src/translate_bytecode.rs"
PYVT = os.environ.get("U16_PYTHON", "python3-vt")

TUPLE_CONTRACT = (
    "ASSUMED contract on every component type T_i (uninterpreted sort; T_i's own Equal.equal, Ord.less_than, "
    "less_than_or_equal, greater_than, greater_than_or_equal, Hash.hash are uninterpreted, pure, total functions): "
    "T_i satisfies every law of this list itself (equal is an equivalence; le(a,b) <=> not lt(b,a); ge(a,b) <=> le(b,a); "
    "gt(a,b) <=> lt(b,a); lt(a,b) or equal(a,b) or lt(b,a); equal(a,b) => not lt(a,b) and not lt(b,a); lt transitive; "
    "equal(a,b) => hash(a) == hash(b)). The instances for bool/void/nested tuples are this unit's own obligations; "
    "for int/float/string they are the VM-arm units' obligations (float: only for non-NaN operands, see C16)."
)


def repo():
    return os.environ.get("ABRA_REPO", "/repo")


def prelude_path():
    return os.environ.get("U16_PRELUDE") or os.path.join(repo(), PRELUDE_REL)


LOOP_BOUND = dict(quick=4, thorough=6)


def run_vcgen(tier="quick", only=None, scratch=None, prelude=None, loops=0, only_loops=False, array_laws=0):
    path = prelude or prelude_path()
    if not os.path.isfile(path):
        raise E.Undecided("prelude not found: %s" % path)
    cmd = [PYVT, os.path.join(HERE, "vcgen.py"), "--prelude", path, "--tier", tier]
    if loops:
        cmd += ["--loops", str(loops)]
    if array_laws:
        cmd += ["--array-laws", str(array_laws)]
    if only_loops:
        cmd += ["--only-loops"]
    if scratch:
        cmd += ["--scratch", scratch]
    if only:
        cmd += ["--only", only]
    try:
        p = subprocess.run(cmd, capture_output=True, text=True, timeout=300)
    except (subprocess.TimeoutExpired, OSError) as ex:
        raise E.Undecided("u16 vcgen could not be run: %s" % ex)
    try:
        out = json.loads(p.stdout[p.stdout.index("{"):])
    except Exception:
        raise E.Undecided("u16 vcgen produced no JSON (rc=%s)\n%s" % (p.returncode, (p.stderr or p.stdout)[-2000:]))
    if out.get("fatal"):
        raise E.Undecided("u16 vcgen: " + out["fatal"])
    out["cmd"] = " ".join(cmd)
    return out


def oid(rec):
    return "C24.prelude.%s.%s" % (rec["type"], rec["law"])


def to_obligation(rec):
    blocks = rec.get("blocks") or {}
    syntactic = bool(rec.get("syntactic"))
    text = rec["statement"]
    if rec.get("goal"):
        text += "\n  as evaluated from the real source: " + rec["goal"]
    if blocks:
        text += "\n  blocks cut from %s by name: %s" % (PRELUDE_REL, "; ".join(sorted(blocks)))
    if rec.get("opcodes"):
        text += "\n  VM operations interpreted by their specification (proved in the VM units): " + ", ".join(rec["opcodes"])
    if rec["type"].startswith("tuple"):
        text += "\n  " + TUPLE_CONTRACT
    if rec["type"].startswith("tuple") and rec["law"] == "hash_respects_equal":
        text += ("\n  hash_combine is cut from the prelude and inlined; wrapping_add / wrapping_mul are interpreted as 64-bit "
                 "bit-vector + and * (only their being functions is needed for this law)")
    ob = E.Obligation(
        oid(rec), ["C24"], UNIT,
        "; ".join(sorted(blocks)) or ("prelude impls for %s" % rec["type"]),
        "u16-parser (syntactic check, no solver)" if syntactic else "u16-vcgen/z3" + ("+cvc5" if rec.get("cvc5") else ""),
        rec["status"], rec.get("detail", ""), rec.get("time_s", 0.0), PRELUDE_REL,
        E_sha("".join(sorted(blocks.values()))), None, text,
        cex=(dict(values=rec["cex"], atoms=rec.get("atom_values")) if rec.get("cex") else None))
    return ob


def E_sha(s):
    import hashlib
    return hashlib.sha256(s.encode()).hexdigest()[:16]


# ----------------------------------------------------------------------------- codegen (syntactic)

CMP = [('LessThan', 'less_than'), ('LessThanOrEqual', 'less_than_or_equal'),
       ('GreaterThan', 'greater_than'), ('GreaterThanOrEqual', 'greater_than_or_equal')]
INTRINSIC_OPS = ['EqualInt', 'EqualFloat', 'EqualString'] + [c + t for t in ('Int', 'Float', 'String') for c, _ in CMP] + \
    ['WrappingAdd', 'WrappingMul']


def _emit(name):
    return r'self\.emit\(st,Instr::%s\(Reg::Top,Reg::Top,Reg::Top\)\)' % name


def _arm(ty, name):
    return r'SolvedType::%s=>\{?%s;?\}?,?' % (ty, _emit(name))


def codegen_obligations():
    """SYNTACTIC obligations on translate_bytecode.rs: which code each comparison operator becomes.
    Matched on the comment- and whitespace-free text of the file; a shape we do not recognise is
    UNDECIDED (these never FAIL: they tie the prelude obligations to the operators, they prove nothing
    about values)."""
    t0 = time.time()
    path = os.path.join(repo(), TB_REL)
    obs = []
    try:
        with open(path, encoding="utf-8") as f:
            raw = f.read()
    except OSError as ex:
        raise E.Undecided("cannot read %s: %s" % (path, ex))
    norm = re.sub(r'//[^\n]*', '', raw)
    norm = re.sub(r'\s+', '', norm).replace(',)', ')')
    sha = E_sha(raw)

    def one(name, rx, text):
        n = len(re.findall(rx, norm))
        st = E.DISCHARGED if n == 1 else E.UNDECIDED
        detail = "" if n == 1 else "expected code shape found %d times in %s (anchor lost or code changed: re-read it)" % (n, TB_REL)
        obs.append(E.Obligation("C24.codegen." + name, ["C24"], UNIT, "Translator::translate_expr (ExprKind::BinOp)" if 'intrinsic' not in name else "Translator intrinsic lowering",
                                "regex on whitespace-free source (syntactic check, no solver)", st, detail,
                                time.time() - t0, TB_REL, sha, None, "SYNTACTIC: " + text))

    eq_rx = (r'BinaryOperator::Equal\|BinaryOperator::NotEqual=>\{matcharg1_ty\{' + _arm('Int', 'EqualInt') + _arm('Float', 'EqualFloat')
             + _arm('Bool', 'EqualBool') + _arm('String', 'EqualString')
             + r'_=>\{helper\(mono,"prelude\.Equal\.equal"\);?\}?,?\}'
             + r'if\*op==BinaryOperator::NotEqual\{self\.emit\(st,Instr::Not\(Reg::Top,Reg::Top\)\);\}\}')
    one("equal_not_equal.dispatch", eq_rx,
        "`a == b` compiles to EqualInt/EqualFloat/EqualBool/EqualString for int/float/bool/string and to a call of "
        "prelude Equal.equal for every other type; `a != b` compiles to exactly the same code followed by Instr::Not "
        "(so `!=` is the negation of `==` for every type, given the Not arm of the VM)")
    for camel, snake in CMP:
        rx = (r'BinaryOperator::%s=>matcharg1_ty\{' % camel + _arm('Int', camel + 'Int') + _arm('Float', camel + 'Float')
              + _arm('String', camel + 'String') + r'_=>\{helper\(mono,"prelude\.Ord\.%s"\);?\}?,?\}' % snake)
        one("%s.dispatch" % snake, rx,
            "the operator for %s compiles to %sInt/%sFloat/%sString for int/float/string and to a call of prelude "
            "Ord.%s for every other type (bool, void, tuples, user types)" % (snake, camel, camel, camel, snake))
    rx_all = [r'IntrinsicOperation::%s=>\{%s;\}' % (n, _emit(n)) for n in INTRINSIC_OPS]
    n_ok = sum(1 for rx in rx_all if len(re.findall(rx, norm)) == 1)
    st = E.DISCHARGED if n_ok == len(rx_all) else E.UNDECIDED
    obs.append(E.Obligation("C24.codegen.intrinsics.same_named_opcode", ["C24"], UNIT, "Translator intrinsic lowering",
                            "regex on whitespace-free source (syntactic check, no solver)", st,
                            "" if st == E.DISCHARGED else "%d of %d intrinsic arms have the expected shape" % (n_ok, len(rx_all)),
                            time.time() - t0, TB_REL, sha, None,
                            "SYNTACTIC: each intrinsic the prelude impls call (%s; spelled in snake_case in Abra via "
                            "IntrinsicOperation::name()) is lowered to the single VM instruction of the same name on "
                            "(Top, Top, Top)" % ", ".join(INTRINSIC_OPS)))
    return obs


# ----------------------------------------------------------------------------- thorough-tier self checks

def fidelity():
    """Differential test of the parser/evaluator against the real implementation: every atom
    (Equal.equal, ==, <, <=, >, >=, Hash.hash) on all small concrete values of bool, void and tuples
    of int/bool/void/nested tuples is computed by vcgen (same code path as the proofs) and asked of
    the real CLI.  Any disagreement => the generator is not trusted => UNDECIDED."""
    cmd = [PYVT, os.path.join(HERE, "vcgen.py"), "--prelude", prelude_path(), "--concrete"]
    p = subprocess.run(cmd, capture_output=True, text=True, timeout=300)
    try:
        d = json.loads(p.stdout[p.stdout.index("{"):])
    except Exception:
        raise E.Undecided("u16 fidelity: no JSON from vcgen --concrete\n" + (p.stderr or "")[-1500:])
    if d.get("fatal"):
        return dict(skipped=d["fatal"])
    out, err, rc = abra_cli.run_program(d["program"], timeout=300)
    got = out.strip().split("\n")
    if rc != 0 or len(got) != len(d["expected"]):
        raise E.Undecided("u16 fidelity: real CLI did not answer the %d questions (rc=%s): %s" % (len(d["expected"]), rc, (out + err)[-800:]))
    bad = [(q, e, g) for q, e, g in zip(d["questions"], d["expected"], got) if e != g.strip()]
    if bad:
        raise E.Undecided("u16 fidelity: the evaluator disagrees with the real CLI on %d of %d concrete questions, e.g. %s "
                          "(evaluator says %s, CLI prints %s): generator not trusted" % (len(bad), len(got), bad[0][0], bad[0][1], bad[0][2]))
    return dict(questions=len(got), disagreements=0, array=AR.fidelity(d.get("array") or {"fatal": "no array cases"}))


def selftest():
    cmd = [PYVT, os.path.join(HERE, "selftest.py"), "--prelude", prelude_path(), "--json"]
    p = subprocess.run(cmd, capture_output=True, text=True, timeout=900)
    try:
        d = json.loads(p.stdout[p.stdout.index("{"):])
    except Exception:
        raise E.Undecided("u16 self-test produced no JSON\n" + (p.stderr or "")[-1500:])
    missed = [r for r in d["results"] if not r["ok"]]
    # a mutant whose anchor text is gone (prelude rewritten) is not a miss of the generator
    real_miss = [r for r in missed if "anchor not found" not in r.get("why", "")]
    if real_miss:
        raise E.Undecided("u16 mutation self-test: %d mutant(s) not handled as expected, e.g. `%s` (%s): generator not trusted"
                          % (len(real_miss), real_miss[0]["mutation"], real_miss[0].get("why", "")))
    return dict(mutants=d["n"], as_expected=d["n"] - len(missed),
                anchors_lost=[r["mutation"] for r in missed])


# ----------------------------------------------------------------------------- run

def run(tier="quick"):
    sc = E.Scratch("u16")
    try:
        t0 = time.time()
        nloops = LOOP_BOUND.get(tier, 4) if AL.enabled() else 0      # the loop obligations count for C26 only
        nlaws = LOOP_BOUND.get(tier, 4) if AL.enabled("C24") else 0   # Equal / Hash for array<T> (bounded) count for C24 only
        out = run_vcgen(tier, scratch=sc.path, loops=nloops, array_laws=nlaws)
        obs = [to_obligation(r) for r in out["obligations"]]
        obs += codegen_obligations()
        obs += AR.obligations(out.get("array"))       # C26: loop-free `extend array<T>` members vs the list model
        obs += AL.obligations(out.get("loops"))       # C26, BOUNDED: clear/find/contains/filled/clone/iteration
        obs += AL.obligations(out.get("array_laws"))  # C24, BOUNDED: laws of Equal / Hash for array<T>
        cg = AR.codegen_obligations()
        lost = [o.id for o in cg if o.status != E.DISCHARGED]
        if lost:
            # which instruction runs for self[i], self[i] = v, self.len()/pop()/push() is no longer established
            for o in obs:
                if o.id.startswith("C26.prelude.array.") and o.status == E.DISCHARGED and o.backend.startswith("u16-vcgen"):
                    o.status = E.UNDECIDED
                    o.detail = "the lowering this proof relies on is not established: %s" % ", ".join(lost)
        obs += cg
        canary_ok = (all(c["status"] == "failed" for c in out["canaries"])
                     and all(c["status"] == "failed" for c in (out.get("array") or {}).get("canaries", []))
                     and all(c["status"] == "failed" for c in (out.get("loops") or {}).get("canaries", []))
                     and all(c["status"] == "failed" for c in (out.get("array_laws") or {}).get("canaries", [])))
        extra = {}
        if tier == "thorough":
            extra["fidelity_vs_real_cli"] = fidelity()
            extra["mutation_selftest"] = selftest()
            if nloops:
                extra["loops_fidelity_vs_real_cli"] = AL.fidelity(
                    [o.id.split(".")[3] for o in obs if o.backend == AL.BACKEND and o.status == E.DISCHARGED])
        info = dict(
            assumptions=[
                "U16 tuples: " + TUPLE_CONTRACT,
                "U16: every function met by the evaluator is pure, total and deterministic (the accepted subset has no loops, no "
                "arithmetic that can trap, no indexing); therefore short-circuit and/or and early return are if-then-else on values",
                "U16: impl selection - `Ord.m(x, y)` / `x < y` on bool, void and k-tuples run the prelude block "
                "`implement Ord for <that type>` (monomorphisation / impl resolution are the type checker's, C22 not claimed)",
                "U16: `==` on bool is the EqualBool VM opcode, taken to be boolean equality; int intrinsics equal_int, less_than_int, ... are "
                "the mathematical comparisons of the i64 operands and wrapping_add / wrapping_mul are arithmetic modulo 2^64 "
                "(their VM arms are verified in U1; only used for `Hash for int/bool/void/tuples` and never needed beyond being functions)",
                "U16: arrays (`implement Equal/Hash for array<T>`) contain `for` loops: outside the loop-free subset; their laws are decided ONLY "
                "by the bounded-unrolling obligations C24.prelude.Equal.array.* / C24.prelude.Hash.array.consistent (array lengths <= %d), "
                "never for all lengths; `Hash for string` (FNV-1a loop over bytes) is NOT claimed by this unit" % (nlaws or LOOP_BOUND["quick"]),
                "U16 arrays (C26): " + AR.PRIM_NOTE + "; the list is shorter than 2^62 elements; `self` is the only array in scope (no aliasing: "
                "elements are values of an arbitrary type T, modelled by an uninterpreted sort); a runtime error ends the program",
                "U16 arrays (C26): array.sort, sort_by, sort_by_key (loops, lambdas) are refused by the parser and NOT claimed; clear, find, contains, "
                "filled, Clone for array and iteration are covered ONLY by the bounded-unrolling obligations C26.prelude.array.<member>.model of "
                "vcloops.py (list lengths <= %d), never for all lengths; the unbounded (loop-free) evaluator still refuses them" % (nloops or LOOP_BOUND["quick"]),
            ] + list((out.get("loops") or {}).get("assumptions", []))
            + [a for a in (out.get("array_laws") or {}).get("assumptions", []) if a not in (out.get("loops") or {}).get("assumptions", [])],
            trusted_base=[
                "units/u16_prelude/abra_subset.py: Abra-subset lexer/parser written to mirror abra_core/src/parse.rs (refuses anything else)",
                "units/u16_prelude/vcgen.py: symbolic evaluator (about 250 lines of Python)",
                "units/u16_prelude/vcloops.py: forking symbolic interpreter for the loop members (about 350 lines of Python) + the `loops` mode of the parser",
                "z3 %s (python bindings of the tooling venv)%s" % (out.get("z3"), "; cvc5 cross-check of every query" if tier == "thorough" else ""),
                "heck::ToSnakeCase naming of intrinsics (IntrinsicOperation::name)",
            ],
            checker_cmds=[out["cmd"].replace(sc.path, "$SCRATCH")],
            notes=dict(prelude=out.get("prelude"), prelude_sha=out.get("prelude_sha"), canaries=out["canaries"],
                       canary_all_refuted=canary_ok, vcgen=out.get("notes"), wall_s=round(time.time() - t0, 2),
                       syntactic_obligations=[o.id for o in obs if "syntactic" in o.backend],
                       array_canaries=(out.get("array") or {}).get("canaries"),
                       loop_canaries=(out.get("loops") or {}).get("canaries"), loop_bound=nloops or None,
                       array_law_canaries=(out.get("array_laws") or {}).get("canaries"), array_law_bound=nlaws or None, array_refused=((out.get("array") or {}).get("notes") or {}).get("refused"),
                       **extra),
        )
        return obs, info
    finally:
        sc.cleanup()


# ----------------------------------------------------------------------------- replay

def abra_lit(v):
    if v is True:
        return "true"
    if v is False:
        return "false"
    if v == "nil":
        return "nil"
    if isinstance(v, (list, tuple)):
        return "(%s)" % ", ".join(abra_lit(x) for x in v)
    if isinstance(v, int):
        if v >= 0:
            return str(v)
        return "(0 - 9223372036854775807 - 1)" if v == -(1 << 63) else "(0 - %d)" % (-v)
    raise ValueError(v)


def law_program(law, values):
    """Abra program that binds the counterexample and prints every atom of the law, one per line."""
    atoms = LW.atoms_of(law)
    src = "".join("let %s = %s\n" % (n, abra_lit(values[n])) for n in law[1])
    src += "".join("println(%s)\n" % LW.ABRA_ATOM[a[0]](*a[1:]) for a in atoms)
    return src, atoms


def judge(law, atoms, stdout):
    lines = stdout.strip().split("\n")
    if len(lines) != len(atoms):
        return None, {}
    got = {}
    for a, ln in zip(atoms, lines):
        ln = ln.strip()
        if ln in ("true", "false"):
            got[a] = (ln == "true")
        elif re.fullmatch(r'-?\d+', ln):
            got[a] = int(ln)
        else:
            return None, {}
    holds = law[2](lambda k, *vs: got[(k,) + tuple(vs)], LW.PyLogic)
    return bool(holds), {LW.ABRA_ATOM[a[0]](*a[1:]): got[a] for a in atoms}


SAMPLES = {
    'int': [("1", "2", -1), ("2", "1", 1), ("1", "1", 0), ("(0 - 5)", "3", -1)],
    'float': [("1.0", "2.0", -1), ("2.5", "1.5", 1), ("1.0", "1.0", 0)],
    'string': [('"a"', '"b"', -1), ('"b"', '"a"', 1), ('"ab"', '"ab"', 0), ('"a"', '"ab"', -1)],
}
EXPECT = {'equal': lambda c: c == 0, 'less_than': lambda c: c < 0, 'less_than_or_equal': lambda c: c <= 0,
          'greater_than': lambda c: c > 0, 'greater_than_or_equal': lambda c: c >= 0}


def replay(ob):
    """Turn the solver's model into an Abra program, run it on the REAL CLI (tools/abra_cli.py) and judge
    the printed atoms against the law in Python.  True = the real CLI violates the law as Z3 says."""
    if re.fullmatch(r'C26\.prelude\.array\.(%s)\.model' % "|".join(AL.LM.MEMBERS), ob.id):
        def rerun_loops(oid_):
            lp = run_vcgen("quick", loops=LOOP_BOUND["quick"], only_loops=True).get("loops") or {}
            for r in lp.get("obligations", []):
                if r["id"] == oid_ and r["status"] == "failed":
                    return r.get("cex")
            return None
        return AL.replay(ob, rerun_loops)
    if re.fullmatch(r'C24\.prelude\.(Equal|Hash)\.array\.\w+', ob.id):
        def rerun_laws(oid_):
            lp = run_vcgen("quick", array_laws=LOOP_BOUND["quick"], only_loops=True).get("array_laws") or {}
            for r in lp.get("obligations", []):
                if r["id"] == oid_ and r["status"] == "failed":
                    return r.get("cex")
            return None
        return AL.replay_law(ob, rerun_laws)
    if ob.id.startswith("C26."):
        def rerun(oid_):
            arr = run_vcgen("quick").get("array") or {}
            for r in arr.get("obligations", []):
                if r["id"] == oid_ and r["status"] == "failed":
                    return r.get("cex")
            return None
        return AR.replay(ob, rerun)
    m = re.fullmatch(r'C24\.prelude\.(\w+)\.(\w+)', ob.id)
    if not m:
        return None, dict(note="no replay for this obligation (syntactic code-shape check)")
    tkey, lname = m.group(1), m.group(2)
    if lname.endswith("_delegates"):
        method = lname[:-len("_delegates")]
        iface = 'Equal' if method == 'equal' else 'Ord'
        src = "".join("println(%s.%s(%s, %s))\n" % (iface, method, a, b) for a, b, _ in SAMPLES[tkey])
        out, err, rc = abra_cli.run_program(src)
        info = dict(program=src, real_output=(out + err)[:600])
        lines = out.strip().split("\n")
        if rc != 0 or len(lines) != len(SAMPLES[tkey]):
            return None, info
        wrong = [(a, b, ln) for (a, b, c), ln in zip(SAMPLES[tkey], lines) if (ln.strip() == "true") != EXPECT[method](c)]
        info["wrong_answers"] = wrong
        ob.cex = dict(samples=wrong)
        return bool(wrong), info
    law = LW.LAW_BY_NAME.get(lname)
    if law is None:
        return None, dict(note="unknown law")
    cex = (ob.cex or {}).get("values") if isinstance(ob.cex, dict) else None
    info = {}
    if cex is None:
        out = run_vcgen("quick", only="%s.%s" % (tkey, lname))
        recs = out["obligations"]
        if not recs or recs[0]["status"] != "failed" or not recs[0].get("cex"):
            return None, dict(note="generator does not refute the law now", status=recs[0]["status"] if recs else None)
        cex = recs[0]["cex"]
        ob.cex = dict(values=cex, atoms=recs[0].get("atom_values"))
    src, atoms = law_program(law, cex)
    out, err, rc = abra_cli.run_program(src)
    info.update(counterexample=cex, program=src, real_output=(out + err)[:600], law=law[3],
                component_realisation=("tuple components realised by int ranks of the model's total preorder"
                                       if tkey.startswith("tuple") else None))
    if rc != 0:
        return None, info
    holds, got = judge(law, atoms, out)
    info["real_atoms"] = got
    if holds is None:
        return None, info
    if holds and tkey.startswith("tuple") and lname == "hash_respects_equal":
        # an abstract counter-model may rely on a hash collision that ints cannot realise
        return None, info
    return (not holds), info
