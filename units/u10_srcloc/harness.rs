// U10 Kani harnesses (appended inside module `vm` of the vmk crate, pc_to_error_location NOT
// stubbed): each of the three table lookups of the REAL pc_to_error_location against "the entry
// covering instruction pc-1", the order of make_stack_trace, and the iteration order of
// `Display for VmError` (its `for location in <EXPR>` header is cut from the real impl and
// replayed without the formatting machinery).  One symbolic table per harness (the other two
// are the one-entry table): a fully symbolic VmSharedReadonly costs CBMC > 5 min.
#[cfg(kani)]
mod u10 {
    use super::hs::*;
    use super::*;

    pub struct Tab { pub n: usize, pub s: [u32; 4], pub v: [u32; 4] }
    /// symbolic table of 1..=4 entries satisfying C32.tables.build.inv
    pub fn any_tab(nids: u32) -> Tab {
        any_tab_n(nids, 4)
    }
    pub fn any_tab_n(nids: u32, nmax: usize) -> Tab {
        let n: usize = kani::any();
        kani::assume(1 <= n && n <= nmax);
        let s: [u32; 4] = [0, kani::any(), kani::any(), kani::any()];
        let v: [u32; 4] = [kani::any(), kani::any(), kani::any(), kani::any()];
        kani::assume(s[0] < s[1] && s[1] < s[2] && s[2] < s[3]);
        kani::assume(v[0] < nids && v[1] < nids && v[2] < nids && v[3] < nids);
        Tab { n, s, v }
    }
    pub fn to_vec(t: &Tab) -> Vec<(BytecodeIndex, u32)> {
        let mut x = vec![(t.s[0], t.v[0]), (t.s[1], t.v[1]), (t.s[2], t.v[2]), (t.s[3], t.v[3])];
        x.truncate(t.n);
        x
    }
    /// specification: attribute of the last entry whose start is <= i
    pub fn covering(t: &Tab, i: u32) -> u32 {
        let mut r = t.v[0];
        if t.n > 1 && t.s[1] <= i { r = t.v[1]; }
        if t.n > 2 && t.s[2] <= i { r = t.v[2]; }
        if t.n > 3 && t.s[3] <= i { r = t.v[3]; }
        r
    }
    fn mk(files: Vec<(BytecodeIndex, u32)>, lines: Vec<(BytecodeIndex, u32)>, funcs: Vec<(BytecodeIndex, u32)>, nstr: usize) -> VmGreenThread {
        let mut fa = vec![String::new()];
        let mut ga = vec![String::new()];
        if nstr > 1 { fa.push(String::from("a")); ga.push(String::from("f")); }
        if nstr > 2 { fa.push(String::from("aa")); ga.push(String::from("ff")); }
        let shared = Arc::new(VmSharedReadonly {
            program: vec![], int_constants: vec![], float_constants: vec![], static_strings: vec![],
            filename_table: files, lineno_table: lines, function_name_table: funcs,
            filename_arena: fa, function_name_arena: ga, heap_size: 0,
        });
        mk_thread(shared)
    }

    /// C32.tables.lookup.post (line): the VM has already incremented pc when an error is raised,
    /// and a call frame holds the return address, so the location reported for pc must be that of
    /// instruction pc-1, for every pc >= 1.
    #[kani::proof]
    #[kani::unwind(6)]
    fn lookup_post_line() {
        let tab = any_tab(u32::MAX);
        let t = mk(vec![(0, 0)], to_vec(&tab), vec![(0, 0)], 1);
        let pc: u32 = kani::any();
        kani::assume(pc >= 1);
        let loc = t.pc_to_error_location(ProgramCounter(pc));
        assert!(loc.lineno == covering(&tab, pc - 1), "line of instruction pc-1");
        assert!(loc.filename.len() == 0 && loc.function_name.len() == 0, "other lookups unaffected");
        kani::cover!(tab.n == 4 && pc == tab.s[2], "pc exactly at the start of an entry (Ok branch) reachable");
        kani::cover!(tab.n == 4 && pc > tab.s[3], "pc past the last entry (Err(len) branch) reachable");
        kani::cover!(tab.n >= 2 && pc < tab.s[1], "pc inside the first range reachable");
        // dropping the thread (impl Drop for VmGreenThread) is not part of the obligation and doubles CBMC's work
        core::mem::forget(loc);
        core::mem::forget(t);
    }

    /// C32.tables.lookup.post (file): arena entry k is a string of length k, so the length of the
    /// returned String identifies the id that was looked up
    #[kani::proof]
    #[kani::unwind(6)]
    fn lookup_post_file() {
        let tab = any_tab(3);
        let t = mk(to_vec(&tab), vec![(0, 7)], vec![(0, 0)], 3);
        let pc: u32 = kani::any();
        kani::assume(pc >= 1);
        let loc = t.pc_to_error_location(ProgramCounter(pc));
        assert!(loc.filename.len() == covering(&tab, pc - 1) as usize, "file of instruction pc-1");
        assert!(loc.lineno == 7 && loc.function_name.len() == 0, "other lookups unaffected");
        kani::cover!(tab.n == 4 && pc == tab.s[2], "pc exactly at the start of an entry (Ok branch) reachable");
        kani::cover!(tab.n == 4 && pc > tab.s[3], "pc past the last entry (Err(len) branch) reachable");
        kani::cover!(tab.n >= 2 && pc < tab.s[1], "pc inside the first range reachable");
        // dropping the thread (impl Drop for VmGreenThread) is not part of the obligation and doubles CBMC's work
        core::mem::forget(loc);
        core::mem::forget(t);
    }

    /// C32.tables.lookup.post (function)
    #[kani::proof]
    #[kani::unwind(6)]
    fn lookup_post_func() {
        let tab = any_tab(3);
        let t = mk(vec![(0, 0)], vec![(0, 7)], to_vec(&tab), 3);
        let pc: u32 = kani::any();
        kani::assume(pc >= 1);
        let loc = t.pc_to_error_location(ProgramCounter(pc));
        assert!(loc.function_name.len() == covering(&tab, pc - 1) as usize, "function of instruction pc-1");
        assert!(loc.lineno == 7 && loc.filename.len() == 0, "other lookups unaffected");
        kani::cover!(tab.n == 4 && pc == tab.s[2], "pc exactly at the start of an entry (Ok branch) reachable");
        kani::cover!(tab.n == 4 && pc > tab.s[3], "pc past the last entry (Err(len) branch) reachable");
        kani::cover!(tab.n >= 2 && pc < tab.s[1], "pc inside the first range reachable");
        // dropping the thread (impl Drop for VmGreenThread) is not part of the obligation and doubles CBMC's work
        core::mem::forget(loc);
        core::mem::forget(t);
    }

    /// pc == 0 (no instruction has executed): the lookup must not fault; it reports entry 0
    #[kani::proof]
    #[kani::unwind(6)]
    fn lookup_pc0_total() {
        let tab = any_tab(u32::MAX);
        let t = mk(vec![(0, 0)], to_vec(&tab), vec![(0, 0)], 1);
        let loc = t.pc_to_error_location(ProgramCounter(0));
        assert!(loc.lineno == tab.v[0], "pc == 0 reports the first entry");
        kani::cover!(true, "reachable");
        core::mem::forget(loc);
        core::mem::forget(t);
    }

    /// C32.trace.order (1): make_stack_trace lists the frames outermost first (call_stack order),
    /// one entry per active call, each the lookup of that frame's return address.  Runs on the crate
    /// variant in which pc_to_error_location is the stub `lineno = pc` (replacement K4b), so that an
    /// entry identifies the frame it came from; the lookups themselves are the harnesses above.
    #[kani::proof]
    #[kani::unwind(6)]
    fn trace_outermost_first() {
        let mut t = mk(vec![(0, 0)], vec![(0, 0)], vec![(0, 0)], 1);
        let nf: usize = kani::any();
        kani::assume(nf <= 3);
        let (p0, p1, p2): (u32, u32, u32) = (kani::any(), kani::any(), kani::any());
        if nf >= 1 {
            t.call_stack.push(CallFrame { pc: ProgramCounter(p0), stack_base: 0, nargs: 0 });
        }
        if nf >= 2 {
            t.call_stack.push(CallFrame { pc: ProgramCounter(p1), stack_base: 0, nargs: 0 });
        }
        if nf >= 3 {
            t.call_stack.push(CallFrame { pc: ProgramCounter(p2), stack_base: 0, nargs: 0 });
        }
        let tr = t.make_stack_trace();
        assert!(tr.len() == nf, "one entry per active call");
        if nf >= 1 {
            assert!(tr[0].lineno == p0, "entry 0 = lookup of the outermost frame's return address");
        }
        if nf >= 2 {
            assert!(tr[1].lineno == p1, "entry 1 = next frame");
        }
        if nf >= 3 {
            assert!(tr[2].lineno == p2, "entry 2 = innermost frame");
        }
        kani::cover!(nf == 3, "three frames reachable");
        core::mem::forget(tr);
        core::mem::forget(t);
    }

    fn loc(n: u32) -> VmErrorLocation {
        VmErrorLocation { filename: String::new(), lineno: n, function_name: String::new() }
    }

    /// C32.trace.order (2): Display prints the failure location first, then the call sites
    /// innermost first.  display_order() replays the iterator expression of the
    /// `for location in ..` loop of `impl Display for VmError`, cut from the real text.
    #[kani::proof]
    #[kani::unwind(6)]
    fn display_innermost_first() {
        let (l, a, b, c): (u32, u32, u32, u32) = (kani::any(), kani::any(), kani::any(), kani::any());
        let e = VmError { kind: VmErrorKind::DivisionByZero, location: loc(l), trace: vec![loc(a), loc(b), loc(c)] };
        let order = display_order(&e);
        assert!(order.len() == 4);
        assert!(order[0] == l, "failure location first");
        assert!(order[1] == c && order[2] == b && order[3] == a, "then the active calls, innermost (last pushed) first");
        kani::cover!(true, "reachable");
    }
}
