// U10 Kani harnesses (appended inside module `vm` of the vmk crate, pc_to_error_location NOT
// stubbed): the three table lookups of the REAL pc_to_error_location against "the entry
// covering instruction pc-1", the order of make_stack_trace, and the iteration order of
// `Display for VmError` (its `for location in <EXPR>` header is cut from the real impl and
// replayed without the formatting machinery).
#[cfg(kani)]
mod u10 {
    use super::hs::*;
    use super::*;

    pub const NMAX: usize = 4;

    /// a symbolic table of 1..=NMAX entries satisfying C32.tables.build.inv: strictly
    /// increasing starts, first start 0; attribute ids < nids
    fn any_table(nids: u32) -> Vec<(BytecodeIndex, u32)> {
        let n: usize = kani::any();
        kani::assume(1 <= n && n <= NMAX);
        let mut t: Vec<(BytecodeIndex, u32)> = Vec::new();
        let mut prev: u32 = 0;
        let mut i = 0;
        while i < NMAX {
            if i < n {
                let s: u32 = kani::any();
                let v: u32 = kani::any();
                kani::assume(v < nids);
                if i == 0 {
                    kani::assume(s == 0);
                } else {
                    kani::assume(s > prev);
                }
                prev = s;
                t.push((s, v));
            }
            i += 1;
        }
        t
    }

    /// specification: the last entry whose start is <= i
    fn covering(t: &Vec<(BytecodeIndex, u32)>, i: u32) -> u32 {
        let mut r = t[0].1;
        let mut k = 0;
        while k < t.len() {
            if t[k].0 <= i {
                r = t[k].1;
            }
            k += 1;
        }
        r
    }

    fn mk(files: Vec<(BytecodeIndex, u32)>, lines: Vec<(BytecodeIndex, u32)>, funcs: Vec<(BytecodeIndex, u32)>) -> VmGreenThread {
        let shared = Arc::new(VmSharedReadonly {
            program: vec![],
            int_constants: vec![],
            float_constants: vec![],
            static_strings: vec![],
            filename_table: files,
            lineno_table: lines,
            function_name_table: funcs,
            // arena entry k is a string of length k: the returned String identifies the id
            filename_arena: vec![String::new(), String::from("a"), String::from("aa")],
            function_name_arena: vec![String::new(), String::from("f"), String::from("ff")],
            heap_size: 0,
        });
        mk_thread(shared)
    }

    /// C32.tables.lookup.post: the VM has already incremented pc when an error is raised, and a
    /// call frame holds the return address, so the location reported for pc must be that of
    /// instruction pc-1, for every pc >= 1.
    #[kani::proof]
    #[kani::unwind(6)]
    fn lookup_post() {
        let files = any_table(3);
        let lines = any_table(u32::MAX);
        let funcs = any_table(3);
        let (f2, l2, g2) = (files.clone(), lines.clone(), funcs.clone());
        let t = mk(files, lines, funcs);
        let pc: u32 = kani::any();
        kani::assume(pc >= 1);
        let loc = t.pc_to_error_location(ProgramCounter(pc));
        assert!(loc.lineno == covering(&l2, pc - 1), "line of instruction pc-1");
        assert!(loc.filename.len() == covering(&f2, pc - 1) as usize, "file of instruction pc-1");
        assert!(loc.function_name.len() == covering(&g2, pc - 1) as usize, "function of instruction pc-1");
        kani::cover!(l2.len() == NMAX && pc == l2[2].0, "pc exactly at the start of an entry (Ok branch) reachable");
        kani::cover!(l2.len() == NMAX && pc > l2[3].0, "pc past the last entry (Err(len) branch) reachable");
        kani::cover!(l2.len() >= 2 && pc < l2[1].0, "pc inside the first range reachable");
    }

    /// pc == 0 (no instruction has executed): the lookup must not fault; it reports entry 0
    #[kani::proof]
    #[kani::unwind(6)]
    fn lookup_pc0_total() {
        let lines = any_table(u32::MAX);
        let l2 = lines.clone();
        let t = mk(vec![(0, 0)], lines, vec![(0, 0)]);
        let loc = t.pc_to_error_location(ProgramCounter(0));
        assert!(loc.lineno == l2[0].1, "pc == 0 reports the first entry");
        kani::cover!(true, "reachable");
    }

    /// C32.trace.order (1): make_stack_trace lists the frames outermost first (call_stack order),
    /// each at the line of its call instruction (frame.pc - 1)
    #[kani::proof]
    #[kani::unwind(6)]
    fn trace_outermost_first() {
        let lines = any_table(u32::MAX);
        let l2 = lines.clone();
        let mut t = mk(vec![(0, 0)], lines, vec![(0, 0)]);
        let nf: usize = kani::any();
        kani::assume(nf <= 3);
        let (p0, p1, p2): (u32, u32, u32) = (kani::any(), kani::any(), kani::any());
        kani::assume(p0 >= 1 && p1 >= 1 && p2 >= 1);
        if nf >= 1 {
            t.call_stack.push(CallFrame { pc: ProgramCounter(p0), stack_base: 0, nargs: 0 });
        }
        if nf >= 2 {
            t.call_stack.push(CallFrame { pc: ProgramCounter(p1), stack_base: 0, nargs: 0 });
        }
        if nf >= 3 {
            t.call_stack.push(CallFrame { pc: ProgramCounter(p2), stack_base: 0, nargs: 0 });
        }
        let tr = t.make_stack_trace();
        assert!(tr.len() == nf, "one entry per active call");
        if nf >= 1 {
            assert!(tr[0].lineno == covering(&l2, p0 - 1), "entry 0 = outermost call site");
        }
        if nf >= 2 {
            assert!(tr[1].lineno == covering(&l2, p1 - 1), "entry 1 = next call site");
        }
        if nf >= 3 {
            assert!(tr[2].lineno == covering(&l2, p2 - 1), "entry 2 = innermost call site");
        }
        kani::cover!(nf == 3, "three frames reachable");
    }

    fn loc(n: u32) -> VmErrorLocation {
        VmErrorLocation { filename: String::new(), lineno: n, function_name: String::new() }
    }

    /// C32.trace.order (2): Display prints the failure location first, then the call sites
    /// innermost first.  DISPLAY_ORDER_EXPR is the iterator expression of the `for location in ..`
    /// loop of `impl Display for VmError`, cut from the real text.
    #[kani::proof]
    #[kani::unwind(6)]
    fn display_innermost_first() {
        let (l, a, b, c): (u32, u32, u32, u32) = (kani::any(), kani::any(), kani::any(), kani::any());
        let e = VmError { kind: VmErrorKind::DivisionByZero, location: loc(l), trace: vec![loc(a), loc(b), loc(c)] };
        let order = display_order(&e);
        assert!(order.len() == 4);
        assert!(order[0] == l, "failure location first");
        assert!(order[1] == c && order[2] == b && order[3] == a, "then the active calls, innermost (last pushed) first");
        kani::cover!(true, "reachable");
    }
}
