"""U10: source-location tables (C32).

* C32.tables.build.inv  (Verus, unbounded): the REAL `Translator::create_source_location_tables`
  (translate_bytecode.rs; let-chains desugared by rule R1, loop invariant and two ghost proof
  blocks spliced in) leaves each of the three tables strictly increasing in bytecode index,
  starting at 0, and such that for every instruction index i the last entry with start <= i
  carries that instruction's file / line / function id.
* C32.tables.lookup.post (Kani, bounded table length): the REAL `pc_to_error_location` (vm.rs,
  whole file compiled by units/vmk, lookups not stubbed) returns, for every pc >= 1 and every
  table satisfying the invariant above, the attributes of instruction pc-1.
* C32.trace.order: make_stack_trace lists frames outermost first; `Display for VmError`
  iterates location, then frames reversed (its `for location in <EXPR>` header is cut from the
  real impl and replayed without the formatting machinery).
"""
import os
import re
import time

import slicer as S
import engine as E
from units import vmk
from units.u9_opt import letchain, canary_transform, run_kani_seq

HERE = os.path.dirname(os.path.abspath(__file__))
UNIT = "U10-srcloc"
T = 'abra_core/src/translate_bytecode.rs'
ASM = 'abra_core/src/assembly.rs'
V = 'abra_core/src/vm.rs'

HEADER = ("#![allow(unused_imports, dead_code, unused_variables, non_snake_case, unused_mut, unused_assignments, non_camel_case_types)]\n"
          "use vstd::prelude::*;\nverus! {\npub type AbraInt = i64;\npub type BytecodeIndex = u32;\n"
          "// TYPE SUBSTITUTION: String payloads of Instr / Label are never inspected by this function\npub struct String(pub u64);\n")

CONTRACT = """        requires
            // call site (Translator::translate): `st` comes fresh from translate_to_assembly, which starts from
            // TranslatorState::default() and never touches the tables (checked textually on every run)
            old(st).filename_table@.len() == 0, old(st).lineno_table@.len() == 0, old(st).function_name_table@.len() == 0,
            // `bytecode_index` is inferred as i32; CallData limits programs to 2^27 instructions anyway
            old(st).lines@.len() < 0x7fff_ffff,
        ensures
            final(st).lines@ == old(st).lines@,
            covers(final(st).filename_table@, files(attrs(old(st).lines@))),
            covers(final(st).lineno_table@, linenos(attrs(old(st).lines@))),
            covers(final(st).function_name_table@, funcs(attrs(old(st).lines@))),
"""
INV = """            invariant
                st.lines@ == old(st).lines@, st.lines@.len() < 0x7fff_ffff, it.index@ <= st.lines@.len(),
                0 <= bytecode_index <= it.index@,
                bytecode_index as int == attrs(st.lines@.take(it.index@)).len(),
                covers(st.filename_table@, files(attrs(st.lines@.take(it.index@)))),
                covers(st.lineno_table@, linenos(attrs(st.lines@.take(it.index@)))),
                covers(st.function_name_table@, funcs(attrs(st.lines@.take(it.index@)))),
"""
P1 = "            proof { lemma_attrs_push(st.lines@, it.index@); }\n"
P2 = """                proof {
                    let a = attrs(st.lines@.take(it.index@));
                    let x = Attr { file: *file_id, line: *lineno as u32, func: *func_id };
                    lemma_map_push(a, x);
                    assert(files(a).len() == a.len() && linenos(a).len() == a.len() && funcs(a).len() == a.len());
                    lemma_cover_step(st.filename_table@, files(a), *file_id, bytecode_index as u32);
                    lemma_cover_step(st.lineno_table@, linenos(a), *lineno as u32, bytecode_index as u32);
                    lemma_cover_step(st.function_name_table@, funcs(a), *func_id, bytecode_index as u32);
                }
"""
P3 = "        proof { assert(st.lines@.take(st.lines@.len() as int) == st.lines@); }\n"

DROPPED_FIELDS = ['function_name_arena', 'func_map', 'funcs_to_generate', 'loop_stack', 'return_stack']
LEMMAS = {'lemma_attrs_push': 'C32.lemma.attrs_push', 'lemma_cover_step': 'C32.lemma.cover_step', 'lemma_map_push': 'C32.lemma.map_push'}


def check_single_writer():
    """The tables must be written only by create_source_location_tables and start empty."""
    src = S.read(T)
    fn = S.method(T, r'impl Translator \{', 'create_source_location_tables')
    rest = src.replace(fn, '')
    bad = re.findall(r'(?:filename_table|lineno_table|function_name_table)\s*\.\s*(?:push|insert|extend|clear|truncate|pop|remove)\b', rest)
    bad += re.findall(r'(?:filename_table|lineno_table|function_name_table)\s*=[^=]', rest)
    if bad:
        raise S.SliceError("source-location tables are written outside create_source_location_tables: %r" % bad[:3])
    tta = S.method(T, r'impl Translator \{', 'translate_to_assembly')
    if 'TranslatorState::default()' not in tta:
        raise S.SliceError("translate_to_assembly no longer starts from TranslatorState::default()")
    tr = S.method(T, r'impl Translator \{', 'translate')
    if not re.search(r'let mut st = self\.translate_to_assembly\(\);\s*self\.create_source_location_tables\(&mut st\);', tr):
        raise S.SliceError("translate(): call site of create_source_location_tables changed")
    return True


def build_verus():
    fn = S.method(T, r'impl Translator \{', 'create_source_location_tables')
    raw = fn
    fn, c = letchain.desugar(fn)
    if c['R1e'] or c['R1'] != 3:
        raise S.SliceError("create_source_location_tables: expected 3 let-chains without else, found %r" % c)
    st = S.item(T, r'pub\(crate\) struct TranslatorState \{')
    st = S.drop_fields(st, DROPPED_FIELDS)
    st, k = re.subn(r'^#\[derive\(Debug, Default\)\]\n', '', st, flags=re.M)
    if k != 1:
        raise S.SliceError("TranslatorState derive attribute changed")
    types = [S.item(ASM, r'pub\(crate\) type Label = String;'), S.item(ASM, r'pub\(crate\) enum Line \{'),
             S.item(ASM, r'pub enum Instr \{'), S.item(ASM, r'pub enum Reg \{')]
    tt = '\n\n'.join(types)
    tt, kd = re.subn(r'^#\[derive\(Debug, Clone\)\]\n', '', tt, flags=re.M)
    sig = "    fn create_source_location_tables(&self, st: &mut TranslatorState) {\n"
    head = "        for line in &st.lines {\n"
    a2 = "            } = line\n            {\n"
    for anchor in (sig, head, a2):
        if fn.count(anchor) != 1:
            raise S.SliceError("create_source_location_tables: splice anchor %r found %d times" % (anchor.strip(), fn.count(anchor)))
    # the ghost text names the function's position counter; take its name from the real text (`let mut <name> = 0;` is the
    # function's first statement) so that a rename of the local does not lose the proof
    mctr = re.search(r'^\s*let mut (\w+) = 0;\s*$', fn[:fn.index(head)], re.M)
    if not mctr:
        raise S.SliceError("create_source_location_tables: position counter `let mut <name> = 0;` before the loop not found")
    ctr = mctr.group(1)
    inv, p2, p3 = (x.replace("bytecode_index", ctr) for x in (INV, P2, P3))
    fn = fn.replace(sig, sig[:-2] + "\n" + CONTRACT + "    {\n")
    fn = fn.replace(head, "        for line in it: &st.lines\n" + inv + "        {\n" + P1)
    fn = fn.replace(a2, a2 + p2)
    if not fn.endswith("        }\n    }"):
        raise S.SliceError("create_source_location_tables: end of loop not where expected")
    fn = fn[:-len("    }")] + p3 + "    }"
    text = (HEADER + "// ---- real (assembly.rs), derive attributes dropped ----\n" + tt
            + "\n// ---- real (translate_bytecode.rs), fields %s dropped ----\n" % ', '.join(DROPPED_FIELDS) + st
            + "\n// the method does not touch `self`: the real struct (StaticsContext, file ASTs) is replaced by an empty one\nstruct Translator {}\n"
            + open(os.path.join(HERE, 'spec.rs')).read()
            + "\nimpl Translator {\n// ---- real create_source_location_tables (R1 x3), contract + invariant + 3 ghost blocks spliced ----\n" + fn + "\n}\n} // verus!\nfn main() {}\n")
    text, k0 = re.subn(r'^(\s*)pub(?:\([a-z]+\))? (?=(?:unsafe |const )?(?:fn|struct|enum|type|const)\b)', r'\1', text, flags=re.M)
    text, k1 = re.subn(r'^(\s*)pub\(crate\) (\w+:)', r'\1\2', text, flags=re.M)
    return text, dict(R1=c['R1'], R0=k0 + k1, derive_dropped=kd + 1, proof_splices=3, invariant_splices=1), S.sha(raw)


def display_order_fn():
    imp = S.item(V, r'impl Display for VmError \{')
    loops = re.findall(r'for location in (.*?) \{\n', imp)
    if len(loops) != 1 or len(re.findall(r'\bfor\s+\w+\s+in\b', imp)) != 1:
        raise S.SliceError("impl Display for VmError: expected exactly one `for location in ..` loop")
    expr = loops[0]
    body_uses = re.search(r'location\.filename, location\.lineno', imp) and re.search(r'location\.function_name', imp)
    if not body_uses:
        raise S.SliceError("impl Display for VmError: loop body no longer prints location.filename/lineno/function_name")
    e2 = re.sub(r'\bself\b', 'this', expr)
    return ("    /// iteration order of `impl Display for VmError` (loop header cut from the real impl: `%s`)\n"
            "    fn display_order(this: &VmError) -> Vec<u32> {\n        let mut v = Vec::new();\n"
            "        for location in %s {\n            v.push(location.lineno);\n        }\n        v\n    }\n" % (expr, e2)), expr, S.sha(imp)


KANI = [  # (harness, obligation id, function, text, tier, group)
    ('vm::u10::lookup_post_line', 'C32.tables.lookup.post.line', 'VmGreenThread::pc_to_error_location',
     "for every pc >= 1 and every lineno_table of 1..=4 entries satisfying C32.tables.build.inv: reported line == attribute of the last "
     "entry with start <= pc-1 (the VM increments pc before executing; call frames hold return addresses)", 'quick', 0),
    ('vm::u10::lookup_post_file', 'C32.tables.lookup.post.file', 'VmGreenThread::pc_to_error_location',
     "same for filename_table / filename_arena", 'quick', 0),
    ('vm::u10::lookup_post_func', 'C32.tables.lookup.post.func', 'VmGreenThread::pc_to_error_location',
     "same for function_name_table / function_name_arena", 'quick', 0),
    ('vm::u10::trace_outermost_first', 'C32.trace.order.make_stack_trace', 'VmGreenThread::make_stack_trace',
     "trace.len() == call_stack.len() and trace[k] == pc_to_error_location(call_stack[k].pc), k = 0 outermost (call stack <= 3 frames; lookup stubbed to `lineno = pc` in this crate variant)", 'quick', 1),
    ('vm::u10::display_innermost_first', 'C32.trace.order.display', 'impl Display for VmError',
     "iteration order of Display::fmt's loop: location, then trace reversed (innermost call site first)", 'quick', 1),
    ('vm::u10::lookup_pc0_total', 'C32.tables.lookup.pc0', 'VmGreenThread::pc_to_error_location',
     "pc == 0: no fault, reports entry 0", 'thorough', 0),
]
BOUND = "one symbolic table of 1..=4 entries per harness, the other two tables have one entry (binary_search_by_key and the Vec helpers unwound 6x); call stack of at most 3 frames, trace of 3"


def run(tier="quick"):
    sc = E.Scratch("u10")
    obs = []
    try:
        t0 = time.time()
        check_single_writer()
        import shutil
        import concurrent.futures as cf
        # ---- Kani crate (whole vm.rs, pc_to_error_location NOT stubbed) built first; its two harness groups run while Verus works
        dfn, dexpr, dsha = display_order_fn()
        hsrc = open(os.path.join(HERE, 'harness.rs')).read().rstrip()
        if not hsrc.endswith('}'):
            raise E.Undecided("harness.rs must end with the closing brace of mod u10")
        hsrc = hsrc[:-1] + dfn + "}\n"
        kdir = os.path.join(sc.path, "vmk")
        kinfo = vmk.build(kdir, arms=[], harness_src=hsrc, stub_loc=False)
        # second crate variant for the ORDER harnesses: pc_to_error_location stubbed (vmk K4) with `lineno = pc` (K4b)
        kdir2 = os.path.join(sc.path, "vmk2")
        kinfo2 = vmk.build(kdir2, arms=[], harness_src=hsrc, stub_loc=True)
        vpath = os.path.join(kdir2, "src", "vm.rs")
        vsrc = open(vpath).read()
        stub_old = "        VmErrorLocation {\n            filename: String::new(),\n            lineno: 0,"
        if vsrc.count(stub_old) != 1:
            raise E.Undecided("vmk stub of pc_to_error_location not found (K4b)")
        open(vpath, "w").write(vsrc.replace(stub_old, stub_old.replace("lineno: 0,", "lineno: pc.0,")))
        loc_sha = S.sha(S.method(V, r'impl VmGreenThread \{', 'pc_to_error_location'))
        sel = [k for k in KANI if k[4] == 'quick' or tier == 'thorough']
        g0 = [k[0] for k in sel if k[5] == 0]
        g1 = [k[0] for k in sel if k[5] == 1]
        ex = cf.ThreadPoolExecutor(max_workers=2)
        f0 = ex.submit(run_kani_seq, kdir, g0, 300)
        f1 = ex.submit(run_kani_seq, kdir2, g1, 300)
        # ---- Verus
        text, rew, sha = build_verus()
        path = sc.file("u10_tables.rs", text)
        res = E.run_verus(path)
        lines = E.fn_line_ranges(text)
        errs = {}
        for e in res['errors']:
            fn = lines[e['line'] - 1] if e['line'] and e['line'] <= len(lines) else None
            errs.setdefault(fn, []).append(e['block'])
        by = {k.split("::")[-1]: v for k, v in res['functions'].items()}
        names = ['create_source_location_tables'] + list(LEMMAS)
        cpath = sc.file("u10_canary.rs", canary_transform(text, names, keep_verified=('create_source_location_tables',)))
        cres = E.run_verus(cpath)
        cby = {k.split("::")[-1]: v for k, v in cres['functions'].items()}

        def vob(fn, oid, file, text_, sha_=""):
            f = by.get(fn)
            detail = "\n".join(errs.get(fn, []))
            if not f:
                st, t = E.UNDECIDED, 0
                detail = "function not reported by verus"
            elif f['success']:
                st, t = E.DISCHARGED, f['time_s']
                c = cby.get(fn + '__canary')
                if c is None or c['success']:
                    st, detail = E.UNDECIDED, "vacuity canary: verifies `ensures false`"
            else:
                st, t = E.FAILED, f['time_s']
                if "rlimit" in detail.lower() and "postcondition" not in detail and "invariant" not in detail:
                    st = E.UNDECIDED
            obs.append(E.Obligation(oid, ["C32"], UNIT, fn, "verus/z3", st, detail, t, file, sha_, None, text_,
                                    rlimit=f['rlimit'] if f else None))
        vob('create_source_location_tables', 'C32.tables.build.inv', T, CONTRACT + INV, sha)
        for fn, oid in LEMMAS.items():
            vob(fn, oid, 'verif/units/u10_srcloc/spec.rs', '')
        # ---- Kani results
        (r0, kcmd), (r1, _) = f0.result(), f1.result()
        ex.shutdown()
        kres = dict(r0)
        kres.update(r1)
        for h, oid, fn, text_, _, _ in sel:
            r = kres[h]
            st, detail = r['status'], "\n".join(r['failed'][:6])
            if st == E.DISCHARGED and not any(s == "SATISFIED" for _, s in r['cover']):
                st, detail = E.UNDECIDED, "vacuity guard: no cover statement satisfied"
            if st == E.DISCHARGED and 'lookup_post' in h and not all(s == "SATISFIED" for _, s in r['cover']):
                st, detail = E.UNDECIDED, "a lookup branch (Ok / Err(len) / first range) is not reachable in the harness: %r" % r['cover']
            if st != E.DISCHARGED and not detail:
                detail = r['raw'][-1500:]
            obs.append(E.Obligation(oid, ["C32"], UNIT, fn, "kani/cbmc", st, detail, r['time_s'], V,
                                    dsha if 'display' in h else loc_sha, BOUND, text_ + (" [loop header: %s]" % dexpr if 'display' in h else "")))
        info = dict(
            assumptions=vmk.ASSUMED[:2] + [
                "U10: TYPE SUBSTITUTION String -> opaque token in Line/Instr (create_source_location_tables never inspects instruction payloads); Translator replaced by an empty struct (the method does not use self)",
                "U10: TranslatorState fields %s dropped (not mentioned by the function)" % ', '.join(DROPPED_FIELDS),
                "U10: precondition tables empty at entry (TranslatorState::default(), single writer: checked textually each run) and fewer than 2^31 lines (i32 counter)",
                "U10: line numbers are stored `as u32` (reported modulo 2^32)",
                "U10/kani: VmSharedReadonly built by the harness (arenas of 3 strings of distinct lengths identify the returned file / function id)",
                "U10: the Display obligation decides the ORDER of the printed locations only (loop header cut from the real impl); the formatting itself (writeln!/format!) is outside CBMC's reach and not decided",
                "U10: that each instruction is EMITTED with the right line/file/function (update_current_file_and_lineno, the optimizer keeping the first line's ids) is translator code: not decided",
            ],
            trusted_base=vmk.TRUSTED + ["verus 0.2026.09.13 + z3", "tools/slicer.py", "rewrite rule R1 (let-chain without else), R0", "units/u9_opt/letchain.py"],
            checker_cmds=[res['cmd'].replace(sc.path, "$SCRATCH"), kcmd],
            notes=dict(rewrites=rew, kani_rewrites=kinfo['rewrites'], verus_wall_s=round(res['wall_s'], 1),
                       covers={k[0]: kres[k[0]]['cover'] for k in sel}, wall_s=round(time.time() - t0, 1)),
        )
        return obs, info
    finally:
        sc.cleanup()


# --------------------------------------------------------------------------- replay

PROG = """fn inner(z: int) {
  let a = 1
  let b = a / z
  b
}
fn middle(z: int) {
  let k = 5
  inner(z) + k
}
fn outer(z: int) {
  middle(z)
}
fn id(x: int) = x
let zero = id(0)
let w = id(5)
println("start")
let q = w / id(1)
let r = outer(zero)
println(r)
"""
EXPECT = [("main.abra:3", "inner"), ("main.abra:8", "middle"), ("main.abra:11", "outer"), ("main.abra:18", "<main>")]

PROG2 = """fn id(x: int) = x
let z = id(0)
let w = id(5)
println("x")
let b = w / z
println(b)
"""
EXPECT2 = [("main.abra:5", "<main>")]

# active calls whose call instruction is the FIRST instruction of its line / of its function (zero-argument calls)
PROG3 = """fn ratio(total: int, parts: int) -> int {
  total / parts
}
fn report() -> int {
  ratio(100, 0)
}
fn run_checks() -> int {
  report()
}
fn start() -> int {
  let banner = "starting"
  println(banner)
  run_checks()
}
println(start())
"""
EXPECT3 = [("main.abra:2", "ratio"), ("main.abra:5", "report"), ("main.abra:8", "run_checks"), ("main.abra:13", "start"), ("main.abra:15", "<main>")]


def traceback_of(out):
    tb = []
    seen = False
    for line in out.split("\n"):
        if line.strip() == "[traceback]":
            seen = True
            continue
        if seen:
            m = re.match(r'\s+(\S+:\d+)\s+in `([^`]*)`', line)
            if m:
                tb.append((m.group(1), m.group(2)))
    return tb


def replay(ob):
    """Run two programs on the real CLI: an error three calls deep (call sites innermost first),
    and an error raised by a single-instruction line (`divide_int a b c` is the first and only
    instruction of its line: pc is then exactly the start of the next line's range)."""
    import abra_cli
    info = {}
    bad = False
    for name, prog, exp in (("nested", PROG, EXPECT), ("first_instruction_of_line", PROG2, EXPECT2), ("zero_argument_calls", PROG3, EXPECT3)):
        o, e, rc = abra_cli.run_program(prog)
        tb = traceback_of(o + e)
        info[name] = dict(program=prog, output=(o + e)[:800], traceback=tb, expected=exp)
        if tb != exp:
            bad = True
    # the three programs cannot establish that the real code is right: no mismatch = no failing input found
    return (True if bad else None), info
