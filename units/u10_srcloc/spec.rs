// ---------------------------------------------------------------------------
// U10: specification of the source-location tables (property C32), transcribed from the
// property statement: "the reported location names the file, line and function of the
// operation that failed".  A table maps bytecode-index ranges to an attribute id; the entry
// that COVERS instruction i is the last entry whose start is <= i.
// ---------------------------------------------------------------------------

// the three attributes of the k-th *instruction* line (Labels occupy no bytecode index)
pub struct Attr { pub file: u32, pub line: u32, pub func: u32 }

spec fn attrs(lines: Seq<Line>) -> Seq<Attr>
    decreases lines.len(),
{
    if lines.len() == 0 { Seq::<Attr>::empty() } else {
        let p = attrs(lines.drop_last());
        match lines.last() {
            Line::Instr { instr, lineno, file_id, func_id } => p.push(Attr { file: file_id, line: lineno as u32, func: func_id }),
            Line::Label(_) => p,
        }
    }
}
spec fn files(a: Seq<Attr>) -> Seq<u32> { a.map_values(|x: Attr| x.file) }
spec fn linenos(a: Seq<Attr>) -> Seq<u32> { a.map_values(|x: Attr| x.line) }
spec fn funcs(a: Seq<Attr>) -> Seq<u32> { a.map_values(|x: Attr| x.func) }

/// C32.tables.build.inv for one table `t` against the attribute sequence `a` of the
/// instructions 0..a.len():
spec fn covers(t: Seq<(u32, u32)>, a: Seq<u32>) -> bool {
    // strictly increasing in bytecode index
    &&& (forall|i: int, j: int| 0 <= i < j < t.len() ==> (#[trigger] t[i]).0 < (#[trigger] t[j]).0)
    // starts at 0 as soon as there is an instruction
    &&& (a.len() > 0 ==> t.len() > 0 && t[0].0 == 0)
    // every entry starts at an existing instruction
    &&& (forall|j: int| 0 <= j < t.len() ==> (#[trigger] t[j]).0 < a.len())
    // the last entry with start <= i carries instruction i's attribute
    &&& (forall|i: int, j: int| 0 <= i < a.len() && 0 <= j < t.len() && (#[trigger] t[j]).0 <= i
            && (j + 1 == t.len() || t[j + 1].0 > i) ==> t[j].1 == #[trigger] a[i])
}

proof fn lemma_attrs_push(lines: Seq<Line>, k: int)
    requires 0 <= k < lines.len(),
    ensures attrs(lines.take(k + 1)) == (match lines[k] {
        Line::Instr { instr, lineno, file_id, func_id } => attrs(lines.take(k)).push(Attr { file: file_id, line: lineno as u32, func: func_id }),
        Line::Label(_) => attrs(lines.take(k)),
    }),
{
    assert(lines.take(k + 1).drop_last() == lines.take(k));
    assert(lines.take(k + 1).last() == lines[k]);
}

/// one step of the construction: the next instruction (index n) has attribute v; the code
/// pushes (n, v) unless the last entry already carries v
proof fn lemma_cover_step(t: Seq<(u32, u32)>, a: Seq<u32>, v: u32, n: u32)
    requires covers(t, a), a.len() == n as int, n < u32::MAX,
    ensures
        // not redundant (table empty or last value differs): push
        (t.len() == 0 || t.last().1 != v) ==> covers(t.push((n, v)), a.push(v)),
        // redundant: leave the table alone
        (t.len() > 0 && t.last().1 == v) ==> covers(t, a.push(v)),
        // pushing when redundant would also be fine (not used)
{
    let a2 = a.push(v);
    if t.len() == 0 || t.last().1 != v {
        let t2 = t.push((n, v));
        assert forall|i: int, j: int| 0 <= i < j < t2.len() implies (#[trigger] t2[i]).0 < (#[trigger] t2[j]).0 by {
            if j == t.len() { assert(t2[i] == t[i]); assert(t[i].0 < a.len()); } else { assert(t2[i] == t[i] && t2[j] == t[j]); }
        }
        assert(a2.len() > 0 ==> t2.len() > 0 && t2[0].0 == 0) by {
            if t.len() == 0 { assert(a.len() == 0); assert(n == 0); } else { assert(t2[0] == t[0]); assert(t[0].0 < a.len()); }
        }
        assert forall|j: int| 0 <= j < t2.len() implies (#[trigger] t2[j]).0 < a2.len() by {
            if j < t.len() { assert(t2[j] == t[j]); }
        }
        assert forall|i: int, j: int| 0 <= i < a2.len() && 0 <= j < t2.len() && (#[trigger] t2[j]).0 <= i
            && (j + 1 == t2.len() || t2[j + 1].0 > i) implies t2[j].1 == #[trigger] a2[i] by {
            if j == t.len() {
                // the new entry covers exactly i == n
                assert(t2[j].0 == n);
                assert(i == n);
            } else {
                assert(t2[j] == t[j]);
                assert(t[j].0 < a.len());
                if i == n as int {
                    // then the next entry must start after n: impossible, the next entry is (n, v) or an old one < n
                    if j + 1 == t.len() { assert(t2[j + 1].0 == n); } else { assert(t2[j + 1] == t[j + 1]); assert(t[j + 1].0 < a.len()); }
                    assert(false);
                } else {
                    assert(a2[i] == a[i]);
                    if j + 1 < t.len() { assert(t2[j + 1] == t[j + 1]); }
                }
            }
        }
    } else {
        assert forall|i: int, j: int| 0 <= i < a2.len() && 0 <= j < t.len() && (#[trigger] t[j]).0 <= i
            && (j + 1 == t.len() || t[j + 1].0 > i) implies t[j].1 == #[trigger] a2[i] by {
            if i == n as int {
                if j + 1 < t.len() { assert(t[j + 1].0 < a.len()); assert(false); }
                assert(t[j] == t.last());
            } else {
                assert(a2[i] == a[i]);
            }
        }
        assert(t[0].0 == 0) by { if a.len() == 0 { assert(t[0].0 < a.len()); } }
    }
}

proof fn lemma_map_push(a: Seq<Attr>, x: Attr)
    ensures files(a.push(x)) == files(a).push(x.file), linenos(a.push(x)) == linenos(a).push(x.line), funcs(a.push(x)) == funcs(a).push(x.func),
{
    assert(files(a.push(x)) =~= files(a).push(x.file));
    assert(linenos(a.push(x)) =~= linenos(a).push(x.line));
    assert(funcs(a.push(x)) =~= funcs(a).push(x.func));
}
