"""U12: operator precedence tables, token->operator maps and the Pratt loop of
abra_core/src/parse.rs against the documented table of
book/src/language_reference/operators.md (property C31).

Sliced verbatim on every run (by name, tools/slicer.py):
  ast.rs    : enum BinaryOperator, struct Expr (+ its Hash impl), enum ExprKind (4 variants
              dropped), struct FuncCallArg, struct Identifier (+ Hash impl), struct NodeId +
              impl, struct Location, type FileId
  lexer.rs  : struct Token + impl Token, enum TokenKind, struct Span
  parse.rs  : struct Parser; Parser::{new,current_token,prev_token,current_token_location,
              peek_token,eof,expect_token,consume_token,expect_ident,skip_newlines,location,
              parse_expr,parse_expr_bp,handle_postfix_expr,parse_binop,parse_prefix_op,
              parse_postfix_op}; enums PrefixOp, PostfixOp; impl BinaryOperator/PrefixOp/
              PostfixOp (precedence)
Type substitutions / stubs (all listed in info['trusted_base']):
  T1 strum derives on TokenKind -> a generated fieldless `TokenTag` + `discriminant()`
     (what strum's EnumDiscriminants generates); `to_string()` on a tag -> empty String.
  T2 token payload strings are empty ("tokens carry only their tag"): every decision of the
     sliced functions goes through `.tag()` / `discriminant()`.
  T3 ExprKind without AnonymousFunction/IfElse/Match/Block (never built by the sliced code).
  T4 statics::Error -> two-variant stub (UnexpectedToken, ProblematicToken).
  T5 Parser.tokens: Vec<Token> -> TokVec (same `get`; records the highest index read).
  S1 Parser::parse_expr_term -> stub: Ident | IntLit | FloatLit | `-` IntLit | `-` FloatLit
     leaf (mirrors those arms of the real function; numeric conversion, lambdas, parentheses,
     blocks, if/match dropped).
  S2 Parser::parse_func_call_args -> stub accepting exactly `(` `)`.

Back ends:
  * Kani, loop-free, full domain (complete): the three precedence tables against the markdown
    table of operators.md (parsed on every run; order and ties between ANY two operators), and
    the three token -> operator maps over every TokenKind.
  * Exhaustive native execution (bounded): the real Pratt loop `parse_expr_bp` +
    `handle_postfix_expr` on EVERY token string of length <= 7 (quick) / 8 (thorough) over a
    27-tag alphabet, against a shunting-yard reference that knows only the documented levels.
    A string is not extended when neither parser read past its end (instrumented token vector),
    so all strings of the domain are covered by 1.4e7 (quick) parser runs.  Kani was tried
    first: the recursive loop over symbolic tokens does not terminate in CBMC within 7 min
    at length 5.
"""
import os
import re
import slicer as S
import engine as E
import abra_cli
from . import kmulti

HERE = os.path.dirname(os.path.abspath(__file__))
UNIT = "U12-prec"
P = 'abra_core/src/parse.rs'
A = 'abra_core/src/ast.rs'
L = 'abra_core/src/parse/lexer.rs'
DOC = 'book/src/language_reference/operators.md'

# ---- specification side (language reference): spelling -> token tag -> operator ----------
# binary spellings (operators.md sections Arithmetic / String concatenation / Comparison / Logical)
BIN_SPEC = {
    'and': ('And', 'And'), 'or': ('Or', 'Or'),
    '==': ('EqEq', 'Equal'), '!=': ('NotEq', 'NotEqual'),
    '..': ('DotDot', 'Format'),
    '<': ('Lt', 'LessThan'), '<=': ('Le', 'LessThanOrEqual'),
    '>': ('Gt', 'GreaterThan'), '>=': ('Ge', 'GreaterThanOrEqual'),
    '+': ('Plus', 'Add'), '-': ('Minus', 'Subtract'),
    '*': ('Star', 'Multiply'), '/': ('Slash', 'Divide'),
    '%': ('Mod', 'Mod'), '^': ('Caret', 'Pow'),
}
PRE_SPEC = {'-': ('Minus', 'Minus'), 'not': ('Not', 'Not')}
POST_SPEC = {'.field': ('Dot', 'MemberAccess'), '[index]': ('OpenBracket', 'IndexAccess'),
             'f(args)': ('OpenParen', 'FuncCall'), '!': ('Bang', 'Unwrap'), '?': ('Question', 'Try')}
SYMBOL_OF_TAG = {v[0]: k for k, v in BIN_SPEC.items()}
SYMBOL_OF_TAG.update({'Not': 'not', 'Bang': '!', 'Question': '?', 'Dot': '.', 'OpenBracket': '[',
                      'CloseBracket': ']', 'OpenParen': '(', 'CloseParen': ')', 'Comma': ','})

PARSER_METHODS = ['new', 'current_token', 'prev_token', 'current_token_location', 'peek_token', 'eof',
                  'expect_token', 'consume_token', 'expect_ident', 'skip_newlines', 'location',
                  'parse_expr', 'parse_expr_bp', 'handle_postfix_expr', 'parse_binop',
                  'parse_prefix_op', 'parse_postfix_op']

STUBS = """
// ---- stubs S1, S2 (callees of the sliced Pratt loop that are outside this unit) ----
impl Parser {
    fn parse_expr_term(&mut self) -> Result<Rc<Expr>, Box<Error>> {
        self.skip_newlines();
        let current = self.current_token();
        let lo = self.current_token().span.lo;
        Ok(Rc::new(match current.kind {
            TokenKind::Ident(s) => {
                self.consume_token();
                Expr { kind: Rc::new(ExprKind::Variable(s)), loc: self.location(lo), id: NodeId::new() }
            }
            TokenKind::IntLit(_) => {
                self.consume_token();
                Expr { kind: Rc::new(ExprKind::Int(0)), loc: self.location(lo), id: NodeId::new() }
            }
            TokenKind::FloatLit(s) => {
                self.consume_token();
                Expr { kind: Rc::new(ExprKind::Float(s)), loc: self.location(lo), id: NodeId::new() }
            }
            TokenKind::Minus => {
                self.consume_token();
                match self.current_token().kind {
                    TokenKind::IntLit(_) => {
                        self.consume_token();
                        Expr { kind: Rc::new(ExprKind::Int(0)), loc: self.location(lo), id: NodeId::new() }
                    }
                    TokenKind::FloatLit(s) => {
                        self.consume_token();
                        Expr { kind: Rc::new(ExprKind::Float(s)), loc: self.location(lo), id: NodeId::new() }
                    }
                    _ => {
                        return Err(Box::new(Error::UnexpectedToken(String::new(), String::new(), self.current_token_location())));
                    }
                }
            }
            _ => {
                return Err(Box::new(Error::UnexpectedToken(String::new(), String::new(), self.current_token_location())));
            }
        }))
    }

    fn parse_func_call_args(&mut self) -> Result<Vec<FuncCallArg>, Box<Error>> {
        self.expect_token(TokenTag::OpenParen);
        if self.current_token().tag() != TokenTag::CloseParen {
            return Err(Box::new(Error::UnexpectedToken(String::new(), String::new(), self.current_token_location())));
        }
        self.expect_token(TokenTag::CloseParen);
        Ok(vec![])
    }
}
"""

PRELUDE = """#![allow(dead_code, unused_imports, unused_variables, unused_mut, non_snake_case, clippy::all)]
use std::hash::Hasher;
use std::mem;
use std::rc::Rc;
use std::sync::atomic::{AtomicU32, Ordering};

pub type AbraInt = i64; // vm.rs: pub type AbraInt = i64;

// ---- T4: statics::Error reduced to the variants the sliced code constructs ----
#[derive(Debug)]
pub(crate) enum Error {
    UnexpectedToken(String, String, Location),
    ProblematicToken(String, Location),
}
"""


# ------------------------------------------------------------------ documented table

def parse_doc_table():
    """-> (levels: list of (level:int, [symbols], description)), raw table text."""
    text = S.read(DOC)
    m = re.search(r'^### Operator precedence\s*\n(.*?)(?=^#|\Z)', text, re.S | re.M)
    if not m:
        raise S.SliceError("operators.md: section 'Operator precedence' not found")
    sec = m.group(1)
    if not re.search(r'lowest to highest', sec, re.I):
        raise S.SliceError("operators.md: the table's direction ('From lowest to highest') is not stated any more")
    rows = []
    for line in sec.split("\n"):
        cells = [c.strip() for c in line.strip().strip('|').split('|')]
        if len(cells) != 3 or not re.fullmatch(r'\d+', cells[0]):
            continue
        syms = re.findall(r'`([^`]+)`', cells[1])
        rows.append((int(cells[0]), syms, cells[1], cells[2]))
    if len(rows) < 5:
        raise S.SliceError("operators.md: precedence table has %d rows" % len(rows))
    table = "\n".join(l for l in sec.split("\n") if l.strip().startswith('|'))
    return rows, table


def doc_levels():
    rows, table = parse_doc_table()
    binl, prel, postl = {}, {}, {}
    for lvl, syms, cell, descr in rows:
        unary_row = bool(re.search(r'\bunary\b', cell)) or bool(re.search(r'\bprefix\b', descr))
        binary_row = not re.search(r'\bprefix\b', descr)
        for s in syms:
            known = False
            if s in POST_SPEC:
                postl[s] = lvl
                known = True
            else:
                if s in BIN_SPEC and binary_row:
                    binl[s] = lvl
                    known = True
                if s in PRE_SPEC and unary_row:
                    prel[s] = lvl
                    known = True
            if not known:
                raise S.SliceError("operators.md: operator `%s` (level %d) is not known to the check" % (s, lvl))
    return binl, prel, postl, table


def enum_variants(enum_text):
    """name -> payload type list, for enums whose variants are fieldless or tuple variants
    (tolerates block comments and attributes between variants, unlike slicer.enum_variants)."""
    i = enum_text.index('{')
    body = enum_text[i + 1:S.match_brace(enum_text, i)]
    body = re.sub(r'/\*.*?\*/', '', body, flags=re.S)
    body = re.sub(r'//[^\n]*', '', body)
    body = re.sub(r'#\[[^\n]*\]', '', body)
    out = {}
    pos = 0
    rx = re.compile(r'\s*([A-Z][A-Za-z0-9_]*)\s*(?:\(([^()]*)\))?\s*(?:,|$)')
    while body[pos:].strip():
        m = rx.match(body, pos)
        if not m:
            raise S.SliceError("enum variant not understood: %r" % body[pos:pos + 60])
        out[m.group(1)] = [t.strip() for t in m.group(2).split(',') if t.strip()] if m.group(2) else []
        pos = m.end()
    return out


def variants(enum_text):
    return list(enum_variants(enum_text).keys())


# ------------------------------------------------------------------ crate assembly

def build(maxn):
    binl, prel, postl, table = doc_levels()
    sl = {}

    def take(key, text):
        sl[key] = text
        return text

    # --- lexer.rs
    tk = S.item(L, r'pub\(crate\) enum TokenKind \{')
    kinds = enum_variants(tk)
    tk2, k = re.subn(r'#\[derive\(Clone, PartialEq, EnumDiscriminants, EnumString\)\]\n(?:#\[strum[^\n]*\]\n)+',
                     '#[derive(Clone, PartialEq)]\n', tk)
    if k != 1:
        raise S.SliceError("TokenKind: strum derive header not found (T1)")
    tk2, k_attr = re.subn(r'^[ \t]*#\[strum\([^\n]*\)\]\n', '', tk2, flags=re.M)
    take('TokenKind', tk)
    token = take('Token', S.item(L, r'pub\(crate\) struct Token \{'))
    token_impl = S.impl_block(L, r'impl Token \{')
    if len(token_impl) != 1:
        raise S.SliceError("impl Token found %d times" % len(token_impl))
    take('impl Token', token_impl[0])
    span = take('Span', S.item(L, r'pub\(crate\) struct Span \{'))
    tag_enum = "#[derive(Debug, Clone, Copy, PartialEq, Eq)]\npub(crate) enum TokenTag {\n%s}\n" % "".join(
        "    %s,\n" % v for v in kinds)
    disc = "impl TokenKind {\n    pub(crate) fn discriminant(&self) -> TokenTag {\n        match self {\n%s        }\n    }\n}\n" % "".join(
        "            TokenKind::%s%s => TokenTag::%s,\n" % (v, "(..)" if kinds[v] else "", v) for v in kinds)
    tag_str = "impl TokenTag {\n    // T1: Display/IntoStaticStr of a tag is only used for diagnostics text\n    pub(crate) fn to_string(&self) -> String {\n        String::new()\n    }\n}\n"

    # --- ast.rs
    binop = take('BinaryOperator', S.item(A, r'pub enum BinaryOperator \{'))
    expr = take('Expr', S.item(A, r'pub\(crate\) struct Expr \{'))
    expr_hash = S.impl_block(A, r'impl std::hash::Hash for Expr \{')
    ident = take('Identifier', S.item(A, r'pub\(crate\) struct Identifier \{'))
    ident_hash = S.impl_block(A, r'impl std::hash::Hash for Identifier \{')
    if len(expr_hash) != 1 or len(ident_hash) != 1:
        raise S.SliceError("Hash impls of Expr/Identifier not found exactly once")
    ek = take('ExprKind', S.item(A, r'pub\(crate\) enum ExprKind \{'))
    ek2, k_drop = re.subn(r'^[ \t]*(?:AnonymousFunction|IfElse|Match|Block)\([^\n]*\),\n', '', ek, flags=re.M)
    if re.search(r'\b(Stmt|MatchArm|ArgMaybeAnnotated|Type)\b', ek2):
        raise S.SliceError("ExprKind: a remaining variant mentions an AST type outside the unit (T3)")
    fca = take('FuncCallArg', S.item(A, r'pub struct FuncCallArg \{'))
    nodeid = take('NodeId', S.item(A, r'pub\(crate\) struct NodeId \{'))
    nodeid_impl = S.impl_block(A, r'impl NodeId \{')
    if len(nodeid_impl) != 1:
        raise S.SliceError("impl NodeId found %d times" % len(nodeid_impl))
    loc = take('Location', S.item(A, r'pub\(crate\) struct Location \{'))
    fileid = take('FileId', S.item(A, r'pub type FileId = '))

    # --- parse.rs
    parser = take('Parser', S.item(P, r'struct Parser \{'))
    parser, k_t5a = re.subn(r'\btokens: Vec<Token>,', 'tokens: TokVec, // T5', parser)
    methods = []
    k_t5b = 0
    for mname in PARSER_METHODS:
        mt = take('Parser::' + mname, S.method(P, r'impl Parser \{', mname))
        if mname == 'new':
            mt, k_t5b = re.subn(r'\btokens: Vec<Token>,', 'tokens: TokVec,', mt)
        methods.append(mt)
    if k_t5a != 1 or k_t5b != 1:
        raise S.SliceError("Parser.tokens: Vec<Token> not found once in struct Parser / Parser::new (T5)")
    prefix = take('PrefixOp', S.item(P, r'pub\(crate\) enum PrefixOp \{'))
    postfix = take('PostfixOp', S.item(P, r'enum PostfixOp \{'))
    prec = []
    for ty in ('BinaryOperator', 'PrefixOp', 'PostfixOp'):
        b = S.impl_block(P, r'impl %s \{' % ty)
        if len(b) != 1:
            raise S.SliceError("impl %s found %d times" % (ty, len(b)))
        if not re.search(r'fn precedence\(&self\) -> u8', b[0]):
            raise S.SliceError("impl %s has no fn precedence(&self) -> u8" % ty)
        prec.append(take(ty + '::precedence', b[0]))

    bin_vs, pre_vs, post_vs = variants(binop), variants(prefix), variants(postfix)

    # every operator of the code must be documented, and the other way round
    def doc_of(spec, levels, vs, what):
        by_variant = {}
        for sym, (tag, var) in spec.items():
            if sym in levels:
                by_variant[var] = (levels[sym], tag, sym)
        missing = [v for v in vs if v not in by_variant]
        extra = [v for v in by_variant if v not in vs]
        if missing or extra:
            raise E.Undecided("%s operators not matched between the documented table and the enum: "
                              "undocumented %s, documented-but-absent %s" % (what, missing, extra))
        return by_variant

    dbin = doc_of(BIN_SPEC, binl, bin_vs, "binary")
    dpre = doc_of(PRE_SPEC, prel, pre_vs, "prefix")
    dpost = doc_of(POST_SPEC, postl, post_vs, "postfix")
    for d in (dbin, dpre, dpost):
        for var, (lvl, tag, sym) in d.items():
            if tag not in kinds:
                raise S.SliceError("token tag %s (spelling %s) not in TokenKind" % (tag, sym))

    def level_fn(name, ty, d):
        return "fn %s(op: &%s) -> u8 {\n        match op {\n%s        }\n    }\n" % (
            name, ty, "".join("            %s::%s => %d,\n" % (ty, v, d[v][0]) for v in d))

    def tok_fn(name, d):
        return "    fn %s(t: TokenTag) -> Option<u8> {\n        match t {\n%s            _ => None,\n        }\n    }\n" % (
            name, "".join("            TokenTag::%s => Some(%d),\n" % (d[v][1], d[v][0]) for v in d))

    gen_doc = ("// table text:\n" + "".join("    // %s\n" % l for l in table.split("\n")) +
               "    " + level_fn("doc_level_binary", "BinaryOperator", dbin) +
               "    " + level_fn("doc_level_prefix", "PrefixOp", dpre) +
               "    " + level_fn("doc_level_postfix", "PostfixOp", dpost) +
               tok_fn("doc_tok_binary", dbin) + tok_fn("doc_tok_prefix", dpre) + tok_fn("doc_tok_postfix", dpost))
    gen_all = ("const ALL_BIN: [BinaryOperator; %d] = [%s];\n" % (len(bin_vs), ", ".join("BinaryOperator::" + v for v in bin_vs)) +
               "    const ALL_PRE: [PrefixOp; %d] = [%s];\n" % (len(pre_vs), ", ".join("PrefixOp::" + v for v in pre_vs)) +
               "    const ALL_POST: [PostfixOp; %d] = [%s];\n" % (len(post_vs), ", ".join("PostfixOp::" + v for v in post_vs)))
    klist = list(kinds)
    gen_kind = ("const N_KINDS: usize = %d;\n    fn kind_of(i: u16) -> TokenKind {\n        match i {\n%s            _ => TokenKind::%s,\n        }\n    }\n" % (
        len(klist),
        "".join("            %d => TokenKind::%s%s,\n" % (i, v, "(String::new())" if kinds[v] else "") for i, v in enumerate(klist[:-1])),
        klist[-1] + ("(String::new())" if kinds[klist[-1]] else "")) +
        "    fn plain_kind(t: TokenTag) -> TokenKind {\n        match t {\n%s        }\n    }\n" % "".join(
            "            TokenTag::%s => TokenKind::%s%s,\n" % (v, v, "(String::new())" if kinds[v] else "") for v in klist))
    for v in klist:
        if kinds[v] and kinds[v] != ['String']:
            raise S.SliceError("TokenKind::%s has a payload other than String" % v)
    gen_spec = "fn spec_binop(t: TokenTag) -> Option<BinaryOperator> {\n        match t {\n%s            _ => None,\n        }\n    }\n" % "".join(
        "            TokenTag::%s => Some(BinaryOperator::%s),\n" % (tag, var) for sym, (tag, var) in BIN_SPEC.items())
    alpha = ([t for t, _ in BIN_SPEC.values()] + ['Not', 'OpenParen', 'CloseParen', 'Dot', 'OpenBracket', 'CloseBracket',
                                                  'Bang', 'Question', 'Ident', 'IntLit', 'FloatLit', 'Comma'])
    gen_alpha = "const ALPHABET: [TokenTag; %d] = [%s];\n" % (len(alpha), ", ".join("TokenTag::" + t for t in alpha))

    with open(os.path.join(HERE, 'harness.rs')) as f:
        h = f.read()
    for mark, val in (('DOC_LEVELS', gen_doc), ('ALL_OPS', gen_all), ('KIND_OF', gen_kind), ('SPEC_MAPS', gen_spec),
                      ('ALPHABET', gen_alpha), ('MAXN', str(maxn))):
        if ('/*@%s@*/' % mark) not in h:
            raise E.Undecided("harness.rs: marker %s missing" % mark)
        h = h.replace('/*@%s@*/' % mark, val)

    lib = PRELUDE
    lib += "\n// ---- T1/T2: lexer.rs token types (strum derives replaced by generated code) ----\n"
    lib += "\n".join([span, token, token_impl[0], tk2, tag_enum, disc, tag_str])
    lib += "\n// ---- ast.rs ----\n"
    lib += "\n".join([fileid, loc, nodeid, nodeid_impl[0], ident, ident_hash[0], expr, expr_hash[0], ek2, fca, binop])
    lib += "\n// ---- parse.rs ----\n"
    lib += "\n".join([parser, "impl Parser {\n" + "\n\n".join(methods) + "\n}\n", prefix, postfix] + prec)
    lib += STUBS
    lib += "\n" + h
    rewrites = dict(T1_strum_header=k, T1_strum_variant_attrs=k_attr, T3_exprkind_variants_dropped=k_drop,
                    methods_sliced=len(methods), T5_token_vector=k_t5a + k_t5b)
    meta = dict(sl=sl, table=table, alphabet=alpha, doc=dict(binary=dbin, prefix=dpre, postfix=dpost), rewrites=rewrites)
    return lib, meta


CARGO = """[package]
name = "u12"
version = "0.1.0"
edition = "2024"
[dependencies]
[lints.rust]
unexpected_cfgs = { level = "allow" }
[profile.release]
debug = false
[workspace]
"""

MAIN = "#[cfg(not(kani))]\nfn main() {\n    u12::u12::enumerate_main();\n}\n#[cfg(kani)]\nfn main() {}\n"

# Kani obligations (loop-free, full domain): id -> (harness, function, slice keys, text)
KANI_OBL = [
    ("C31.prec.binary.table", "binary_table", "BinaryOperator::precedence", ['BinaryOperator::precedence', 'BinaryOperator'],
     "for every BinaryOperator a and every operator b (binary, prefix or postfix): doc_level(a) < doc_level(b) <=> "
     "a.precedence() < b.precedence() and doc_level(a) == doc_level(b) <=> a.precedence() == b.precedence(); doc_level "
     "is generated from the markdown table of operators.md on this run"),
    ("C31.prec.prefix.table", "prefix_table", "PrefixOp::precedence", ['PrefixOp::precedence', 'PrefixOp'],
     "same, a ranging over PrefixOp (`-` unary is documented at the level of binary + and -; `not` at its own level)"),
    ("C31.prec.postfix.table", "postfix_table", "PostfixOp::precedence", ['PostfixOp::precedence', 'PostfixOp'],
     "same, a ranging over PostfixOp (.field, [index], f(args), !, ?)"),
    ("C31.prec.parse_binop.map", "parse_binop_map", "Parser::parse_binop", ['Parser::parse_binop'],
     "for every TokenKind k: Parser{tokens:[k]}.parse_binop() == spec_binop(tag(k)) where spec_binop is the spelling->operator "
     "table of the language reference (+ Add, - Subtract, * Multiply, / Divide, % Mod, ^ Pow, .. Format, == != < <= > >=, and, or); "
     "None for every other token; index unchanged"),
    ("C31.prec.parse_prefix_op.map", "parse_prefix_op_map", "Parser::parse_prefix_op", ['Parser::parse_prefix_op'],
     "for every pair of TokenKinds (k0,k1): `not` -> Some(Not); `-` -> Some(Minus) or None; any other k0 -> None; index unchanged"),
    ("C31.prec.parse_postfix_op.map", "parse_postfix_op_map", "Parser::parse_postfix_op", ['Parser::parse_postfix_op'],
     "for every TokenKind k: ( -> FuncCall, . -> MemberAccess, [ -> IndexAccess, ! -> Unwrap, ? -> Try, else None; index unchanged"),
]

PRATT_TEXT = ("for every token string s of the bounded domain: the real parse_expr_bp(0) accepts s without diagnostics iff the "
              "reference operator-precedence parser built from the documented table accepts it, and then both build the same tree "
              "(operators, shape and token spans) and consume the same number of tokens. Reference: shunting-yard with explicit "
              "stacks, binary operators left associative, levels from operators.md only, `-` a prefix operator whatever follows; "
              "a negative-literal leaf over the tokens `-` LIT counts as the tree Unop(-, LIT). ")


def run_enumerator(crate, maxn, timeout):
    """Build the crate natively (release) and run the exhaustive enumeration + its vacuity canary."""
    import json
    import subprocess
    import time
    env = E.kani_env()
    env["CARGO_TARGET_DIR"] = os.path.join(crate, "target-native")
    t0 = time.time()
    p = subprocess.run(["timeout", str(timeout), "cargo", "build", "--release", "--offline", "--quiet"], cwd=crate,
                       capture_output=True, text=True, env=env)
    if p.returncode != 0:
        raise E.Undecided("u12: native build of the sliced parser failed (drift?):\n" + p.stderr[-3000:])
    exe = os.path.join(env["CARGO_TARGET_DIR"], "release", "u12")
    out = {}
    for mode in ("real", "canary"):
        t1 = time.time()
        q = subprocess.run(["timeout", str(timeout), exe] + ([str(min(maxn, 6)), "canary"] if mode == "canary" else [str(maxn)]),
                           capture_output=True, text=True)
        if q.returncode != 0:
            raise E.Undecided("u12: enumerator %s run failed rc=%d\n%s" % (mode, q.returncode, (q.stdout + q.stderr)[-2000:]))
        out[mode] = json.loads(q.stdout.strip().split("\n")[-1])
        out[mode]["time_s"] = time.time() - t1
    out["build_s"] = time.time() - t0 - sum(out[m]["time_s"] for m in ("real", "canary"))
    return out


def run(tier="quick"):
    maxn = 8 if tier == "thorough" else int(os.environ.get("U12_MAXN", "7"))
    sc = E.Scratch("u12")
    try:
        lib, meta = build(maxn)
        sc.file("Cargo.toml", CARGO)
        sc.file("src/lib.rs", lib)
        sc.file("src/main.rs", MAIN)
        only_c29 = os.environ.get("ABRA_VERIF_PROP") == "C29"   # the Kani obligations serve C31 only
        kani_obl = [] if only_c29 else KANI_OBL
        names = ["u12::" + o[1] for o in kani_obl]
        import concurrent.futures as cf
        with cf.ThreadPoolExecutor(max_workers=2) as ex:
            fk = ex.submit(kmulti.run, sc.path, names, 900 if tier == "thorough" else 400) if names else None
            fe = ex.submit(run_enumerator, sc.path, maxn, 3000 if tier == "thorough" else 400)
            res = fk.result() if fk else {}
            enum = fe.result()
        obs = []
        for oid, h, fn, keys, text in kani_obl:
            r = res["u12::" + h]
            st = r['status']
            detail = "\n".join(r['failed'][:6])
            if st == E.FAILED and not r['failed']:
                st = E.UNDECIDED
            if st == E.UNDECIDED:
                detail = r['raw'][-1500:]
            bad_cov = [c for c in r['cover'] if c[1] != 'SATISFIED']
            if st == E.DISCHARGED and (not r['cover'] or bad_cov):
                st, detail = E.UNDECIDED, "vacuity guard: cover not satisfied: %s" % (bad_cov or "no cover reported")
            obs.append(E.Obligation(oid, ["C31"], UNIT, fn, "kani/cbmc", st, detail, r['time_s'], P,
                                    S.sha("\n".join(meta['sl'][k] for k in keys)), None, text))
        # ---- Pratt loop: exhaustive native enumeration
        real, canary = enum["real"], enum["canary"]
        bound = ("every token string of length <= %d over a %d-tag alphabet (%s), %d parser runs covering %.0f strings (a string is "
                 "not extended when neither parser read past its end); call argument lists reduced to `()` and terms to single-token "
                 "leaves / negative literals (stubs S1, S2); exhaustive native execution, not symbolic"
                 % (maxn, real["alphabet"], " ".join(SYMBOL_OF_TAG.get(t, t) for t in meta['alphabet']), real["runs"], real["covered_strings"]))
        vac = None
        if canary["n_mismatch_plain"] == 0:
            vac = "vacuity canary: a right-associative reference is not distinguished from the real parser"
        elif real["accepted_maxlen"] == 0 or real["rejected"] == 0:
            vac = "vacuity guard: no accepted string of maximal length / no rejected string was enumerated"
        want_total = sum(real["alphabet"] ** k for k in range(maxn + 1))
        if abs(real["covered_strings"] - want_total) > 0.5:
            vac = "enumeration does not cover the domain: %.0f of %d strings" % (real["covered_strings"], want_total)
        sha_loop = S.sha("\n".join(meta['sl'][k] for k in ['Parser::parse_expr_bp', 'Parser::handle_postfix_expr', 'Parser::parse_prefix_op']))
        for oid, fn, nkey, lkey, dom in (
                ("C31.pratt.left_assoc", "Parser::parse_expr_bp", "n_mismatch_plain", "mismatch_plain",
                 "Domain: strings without a `-` directly before a numeric literal."),
                ("C31.prec.prefix_minus.uniform", "Parser::parse_prefix_op", "n_mismatch_neg", "mismatch_neg",
                 "Domain: strings in which some `-` is directly followed by a numeric literal, i.e. `-` must group the same "
                 "whatever token follows it (`-2 % 3` like `-x % 3`).")):
            if vac:
                st, detail = E.UNDECIDED, vac
            elif real[nkey]:
                st = E.FAILED
                detail = "%d token strings differ from the reference; first: %s" % (real[nkey], " | ".join(real[lkey][:6]))
            else:
                st, detail = E.DISCHARGED, ""
            obs.append(E.Obligation(oid, ["C31"], UNIT, fn, "exhaustive enumeration (native rustc build of the sliced parser)", st,
                                    detail, real["time_s"], P, sha_loop, bound, PRATT_TEXT + dom))
        # ---- C29: leading blank lines / comment lines before an expression (same enumeration)
        if vac:
            st, detail = E.UNDECIDED, vac
        elif real.get("n_mismatch_nl") is None:
            st, detail = E.UNDECIDED, "enumerator did not report the leading-newline comparison"
        elif real["n_mismatch_nl"]:
            st = E.FAILED
            detail = "%d token strings parse differently with two Newline tokens in front; first: %s" % (real["n_mismatch_nl"], " | ".join(real["mismatch_nl"][:6]))
        else:
            st, detail = E.DISCHARGED, ""
        obs.append(E.Obligation("C29.parse.expr.leading_newlines", ["C29"], UNIT, "Parser::parse_expr",
                                "exhaustive enumeration (native rustc build of the sliced parser)", st, detail, 0.0, P,
                                S.sha(meta['sl']['Parser::parse_expr'] + meta['sl']['Parser::skip_newlines']), bound,
                                "for every token string s of the bounded domain: the real parse_expr on `Newline Newline s` (what the lexer produces for "
                                "blank lines or comment-only lines in front of an expression) accepts iff the real parse_expr_bp(0) accepts s, with the same "
                                "diagnostics status, the same tree (operators, shape, leaf tokens) and the same number of tokens consumed after the newlines"))
        info = dict(
            assumptions=[
                "U12/T2: token payload strings are empty; the sliced functions decide on Token::tag() only",
                "U12/S1: parse_expr_term replaced by a stub accepting Ident | IntLit | FloatLit | `-` IntLit | `-` FloatLit (mirrors those arms of the real function)",
                "U12/S2: parse_func_call_args replaced by a stub accepting exactly `(` `)`",
                "U12: kani::assume only bounds indices into the generated operator/token tables (6 uses)",
                "U12: the spelling -> operator and spelling -> token tables (BIN_SPEC/PRE_SPEC/POST_SPEC) are transcribed from operators.md by hand",
                "U12: Pratt-loop obligations are checked by exhaustive execution of the compiled slice (CBMC cannot unwind the recursive loop over symbolic tokens: >7 min at length 5)",
            ],
            trusted_base=["kani 0.68 / cbmc 6.11", "rustc (native build of the slice)", "tools/slicer.py",
                          "U12/T1: strum EnumDiscriminants/IntoDiscriminant replaced by a generated TokenTag + discriminant(); TokenTag::to_string -> empty String",
                          "U12/T3: ExprKind without AnonymousFunction/IfElse/Match/Block",
                          "U12/T4: statics::Error reduced to UnexpectedToken/ProblematicToken",
                          "U12/T5: Parser.tokens: Vec<Token> -> TokVec (same get(); records the highest index read, used for pruning)",
                          "reference operator-precedence parser units/u12_prec/harness.rs (Ref::parse)",
                          "markdown table reader units/u12_prec/__init__.py:parse_doc_table"],
            checker_cmds=["cargo kani -Z function-contracts -Z stubbing --harness u12::<harness> --exact (crate assembled from parse.rs, ast.rs, parse/lexer.rs by units/u12_prec)",
                          "cargo build --release --offline && target/release/u12 <maxn> [canary]"],
            notes=dict(rewrites=meta['rewrites'], maxn=maxn, alphabet=meta['alphabet'],
                       documented_table=meta['table'],
                       doc_levels={k: {v: d[v][0] for v in d} for k, d in meta['doc'].items()},
                       enumeration={k: v for k, v in real.items() if not k.startswith('mismatch')},
                       canary_right_assoc_mismatches=canary["n_mismatch_plain"], native_build_s=round(enum["build_s"], 1)),
        )
        return obs, info
    finally:
        sc.cleanup()


# ------------------------------------------------------------------ replay on the real CLI

RENDER = dict(SYMBOL_OF_TAG)


def _render(tags, lit):
    out = []
    for t in tags:
        if t == 'Ident':
            out.append('x')
        elif t == 'IntLit':
            out.append('2' if lit else 'x')
        elif t == 'FloatLit':
            out.append('2.0' if lit else 'y')
        elif t in RENDER:
            out.append(RENDER[t])
        else:
            return None
    return " ".join(out)


def _cli_value(expr):
    prog = "let x = 2\nlet y = 2.0\nprintln(%s)\n" % expr
    out, err, rc = abra_cli.run_program(prog)
    msg = re.sub(r'\x1b\[[0-9;]*m', '', out + err).strip()
    return (out.strip() if rc == 0 and out.strip() else "error: " + msg.split("\n")[0][:200]), prog


def replay(ob):
    """For C31.prec.prefix_minus.uniform: take the token string of Kani's counterexample, print it once
    with literals and once with variables of the same value in the literals' places, and run both on the
    real CLI; they must print the same value.  Fixed witnesses (`-2 <op> 3` for every operator documented
    tighter than unary minus) are tried as well."""
    if ob.id == "C29.parse.expr.leading_newlines":
        return newline_replay(ob)
    if ob.id != "C31.prec.prefix_minus.uniform":
        return table_replay(ob)
    info = {}
    cands = []
    # the enumerator's first differing token strings are in ob.detail ("Minus IntLit Mod IntLit: tree differs ...")
    for m in re.finditer(r'(?:first: | \| )((?:[A-Z][A-Za-z]+ ?)+):', ob.detail or ""):
        tags = m.group(1).split()
        info.setdefault('counterexample_tokens', []).append(tags)
        a, b = _render(tags, True), _render(tags, False)
        if a and b and (a, b) not in cands:
            cands.append((a, b))
    if info.get('counterexample_tokens'):
        ob.cex = dict(tokens=info['counterexample_tokens'][0])
    binl, prel, postl, _ = doc_levels()
    for sym, lvl in sorted(binl.items(), key=lambda kv: kv[1]):
        if lvl > prel.get('-', 0):
            cands.append(("-2 %s 3" % sym, "-x %s 3" % sym))
    tried = []
    confirmed = None
    for a, b in cands:
        va, pa = _cli_value(a)
        vb, pb_ = _cli_value(b)
        tried.append(dict(with_literal=a, value=va, with_variable=b + "   (x = 2, y = 2.0)", value_var=vb))
        if va.startswith("error") or vb.startswith("error"):
            continue
        if va != vb:
            confirmed = True
            info.setdefault('failing_input', dict(program=pa, prints=va, same_expression_with_variable=pb_, prints_var=vb))
    info['tried'] = tried
    return confirmed, info


def newline_replay(ob):
    """C29.parse.expr.leading_newlines: the failing token strings, once directly after `let v =` and once after
    `let v =` + a comment line + a blank line, on the real CLI; both programs must behave the same."""
    tried = []
    for m in re.finditer(r'(?:first: | \| )((?:[A-Z][A-Za-z]+ ?)+):', ob.detail or ""):
        tags = m.group(1).split()
        e = _render(tags, False)
        if not e:
            continue
        res = []
        for sep in (" ", " // a comment line\n\n    "):
            prog = "let x = 2\nlet y = 2.0\nlet v =%s%s\nprintln(\"done\")\n" % (sep, e)
            out, err, rc = abra_cli.run_program(prog)
            msg = re.sub(r'\x1b\[[0-9;]*m', '', out + err).strip()
            res.append((prog, rc, out, msg.split("\n")[0][:200]))
        tried.append(dict(tokens=tags, expression=e, same_line=dict(rc=res[0][1], first_line=res[0][3]), after_comment_and_blank_line=dict(rc=res[1][1], first_line=res[1][3])))
        if (res[0][1] == 0) != (res[1][1] == 0) or (res[0][1] == 0 and res[0][2] != res[1][2]):
            ob.cex = dict(tokens=tags)
            return True, dict(program_same_line=res[0][0], program_with_comment_and_blank_line=res[1][0], tried=tried)
    return None, dict(tried=tried)


def table_replay(ob):
    """Table / Pratt-loop obligations: evaluate `a op1 b op2 c` for every pair of integer arithmetic
    operators on the real CLI (operands held in variables) and compare with the value of the tree
    the DOCUMENTED table prescribes (higher level binds tighter, equal levels associate left)."""
    binl, prel, postl, _ = doc_levels()
    ops = [o for o in ['+', '-', '*', '/', '%', '^'] if o in binl]

    def ev(op, x, y):
        if op == '+': return x + y
        if op == '-': return x - y
        if op == '*': return x * y
        if op == '/': return None if y == 0 else abs(x) // abs(y) * (1 if (x >= 0) == (y >= 0) else -1)
        if op == '%': return None if y == 0 else x % abs(y)
        if op == '^': return None if (y < 0 or y > 20) else x ** y
    vals = [(7, 5, 3), (20, 6, 4), (2, 3, 2), (9, 2, 5)]
    lines, want, exprs = ["fn f(a: int, b: int, c: int, k: int) -> int {"], [], []
    k = 0
    body = []
    for o1 in ops:
        for o2 in ops:
            body.append("    if k == %d { return a %s b %s c }" % (k, o1, o2))
            for (a, b, c) in vals:
                if binl[o1] >= binl[o2]:
                    l = ev(o1, a, b)
                    r = None if l is None else ev(o2, l, c)
                else:
                    rr = ev(o2, b, c)
                    r = None if rr is None else ev(o1, a, rr)
                if r is None or abs(r) >= (1 << 62):
                    continue
                exprs.append(("%d %s %d %s %d" % (a, o1, b, o2, c), "println(f(%d, %d, %d, %d))" % (a, b, c, k), str(r)))
            k += 1
    prog = "\n".join(lines + body + ["    0", "}"] + [e[1] for e in exprs]) + "\n"
    out, err, rc = abra_cli.run_program(prog, timeout=120)
    got = out.strip().split("\n")
    for i, (expr, _, w) in enumerate(exprs):
        g = got[i] if i < len(got) else "<missing: %s>" % err.strip().split("\n")[0][:150]
        if g != w:
            ob.cex = dict(expression=expr)
            return True, dict(expression=expr + "   (operands in variables)", real_output=g, expected_by_documented_table=w)
    return None, dict(note="all %d two-operator expressions evaluate as the documented table prescribes on the real CLI" % len(exprs))
