// ===================================================================================
// U12 harnesses (hand written).  Appended to the same module as the sliced parser text,
// so private items (Parser, PostfixOp, parse_* methods) are visible.
// Text between /*@X@*/ markers is generated on every run by units/u12_prec/__init__.py
// from book/src/language_reference/operators.md and from the sliced enums.
// ===================================================================================

pub mod u12 {
    use super::*;

    // ---- generated from operators.md (documented level of every operator) ----------
    /*@DOC_LEVELS@*/

    // ---- generated from the sliced enums (all variants, in declaration order) ------
    /*@ALL_OPS@*/

    // ---- generated: every TokenKind variant (payload strings empty) -----------------
    /*@KIND_OF@*/

    // ---- specification: which operator a token spells (language reference) ---------
    /*@SPEC_MAPS@*/

    #[cfg(kani)]
    fn pick_bin() -> (u8, u8) {
        let i: usize = kani::any();
        kani::assume(i < ALL_BIN.len());
        let op = &ALL_BIN[i];
        (doc_level_binary(op), op.precedence())
    }
    #[cfg(kani)]
    fn pick_pre() -> (u8, u8) {
        let i: usize = kani::any();
        kani::assume(i < ALL_PRE.len());
        let op = &ALL_PRE[i];
        (doc_level_prefix(op), op.precedence())
    }
    #[cfg(kani)]
    fn pick_post() -> (u8, u8) {
        let i: usize = kani::any();
        kani::assume(i < ALL_POST.len());
        let op = &ALL_POST[i];
        (doc_level_postfix(op), op.precedence())
    }
    #[cfg(kani)]
    fn pick_any() -> (u8, u8) {
        let c: u8 = kani::any();
        kani::assume(c < 3);
        match c {
            0 => pick_bin(),
            1 => pick_pre(),
            _ => pick_post(),
        }
    }
    #[cfg(kani)]
    fn same_order(a: (u8, u8), b: (u8, u8)) {
        // levels agree in ORDER (ties included) between the documented table and the code
        assert!((a.0 < b.0) == (a.1 < b.1), "documented order differs from precedence()");
        assert!((a.0 == b.0) == (a.1 == b.1), "documented tie differs from precedence()");
    }

    /// C31.prec.binary.table : for every BinaryOperator a and every operator b (binary, prefix
    /// or postfix): doc(a) < doc(b) <=> a.precedence() < b.precedence(), and the same for ==.
    #[cfg(kani)]
    #[kani::proof]
    fn binary_table() {
        let a = pick_bin();
        let b = pick_any();
        same_order(a, b);
        kani::cover!(true, "reachable");
        kani::cover!(a.0 < b.0, "strictly lower exists");
        kani::cover!(a.0 == b.0, "tie exists");
    }

    #[cfg(kani)]
    #[kani::proof]
    fn prefix_table() {
        let a = pick_pre();
        let b = pick_any();
        same_order(a, b);
        kani::cover!(true, "reachable");
        kani::cover!(a.0 < b.0, "strictly lower exists");
        kani::cover!(a.0 == b.0, "tie exists");
    }

    #[cfg(kani)]
    #[kani::proof]
    fn postfix_table() {
        let a = pick_post();
        let b = pick_any();
        same_order(a, b);
        kani::cover!(true, "reachable");
        kani::cover!(a.0 > b.0, "strictly higher exists");
    }

    fn tok(kind: TokenKind, i: usize) -> Token {
        Token { kind, span: Span { lo: i, hi: i + 1 } }
    }

    #[cfg(kani)]
    fn any_kind() -> TokenKind {
        let i: u16 = kani::any();
        kani::assume((i as usize) < N_KINDS);
        kind_of(i)
    }

    /// C31.prec.parse_binop.map : for every token kind, parse_binop returns the operator the
    /// language reference gives to that spelling (None for every other token) and consumes nothing.
    #[cfg(kani)]
    #[kani::proof]
    fn parse_binop_map() {
        let k = any_kind();
        let tag = k.discriminant();
        let mut p = Parser::new(vec![tok(k, 0)].into(), 0, 2);
        let got = p.parse_binop();
        let want = spec_binop(tag);
        match (got, want) {
            (Some(g), Some(w)) => assert!(g == w, "token maps to a different binary operator"),
            (None, None) => {}
            _ => panic!("binary-operator token set differs from the language reference"),
        }
        assert!(p.index == 0, "parse_binop consumed a token");
        kani::cover!(want.is_some(), "operator token reachable");
        kani::cover!(want.is_none(), "non-operator token reachable");
    }

    /// C31.prec.parse_prefix_op.map : `not` -> Not; `-` -> Minus or (before a literal, see
    /// C31.prec.prefix_minus.uniform) None; every other token -> None; nothing consumed.
    #[cfg(kani)]
    #[kani::proof]
    fn parse_prefix_op_map() {
        let k0 = any_kind();
        let k1 = any_kind();
        let tag = k0.discriminant();
        let mut p = Parser::new(vec![tok(k0, 0), tok(k1, 1)].into(), 0, 3);
        let got = p.parse_prefix_op();
        match tag {
            TokenTag::Not => assert!(matches!(got, Some(PrefixOp::Not)), "`not` is not the Not operator"),
            TokenTag::Minus => assert!(matches!(got, Some(PrefixOp::Minus) | None), "`-` maps to another prefix operator"),
            _ => assert!(got.is_none(), "a token other than `-`/`not` is a prefix operator"),
        }
        assert!(p.index == 0, "parse_prefix_op consumed a token");
        kani::cover!(matches!(got, Some(PrefixOp::Minus)), "minus reachable");
        kani::cover!(matches!(got, Some(PrefixOp::Not)), "not reachable");
    }

    /// C31.prec.parse_postfix_op.map
    #[cfg(kani)]
    #[kani::proof]
    fn parse_postfix_op_map() {
        let k = any_kind();
        let tag = k.discriminant();
        let mut p = Parser::new(vec![tok(k, 0)].into(), 0, 2);
        let got = p.parse_postfix_op();
        let ok = match tag {
            TokenTag::OpenParen => matches!(got, Some(PostfixOp::FuncCall)),
            TokenTag::Dot => matches!(got, Some(PostfixOp::MemberAccess)),
            TokenTag::OpenBracket => matches!(got, Some(PostfixOp::IndexAccess)),
            TokenTag::Bang => matches!(got, Some(PostfixOp::Unwrap)),
            TokenTag::Question => matches!(got, Some(PostfixOp::Try)),
            _ => got.is_none(),
        };
        assert!(ok, "postfix token maps to a different postfix operator");
        assert!(p.index == 0, "parse_postfix_op consumed a token");
        kani::cover!(got.is_some(), "postfix reachable");
        kani::cover!(got.is_none(), "non-postfix reachable");
    }

    // ================================================================================
    // Pratt loop vs. a reference built from the documented table.
    //
    // Reference = operator-precedence (shunting-yard) parser with explicit stacks, a different
    // algorithm from the recursive Pratt loop.  Its only knowledge of precedence is
    // doc_tok_binary / doc_tok_prefix / doc_tok_postfix (generated from operators.md); binary
    // operators are left associative (reduce while top.level >= incoming level); a prefix
    // operator of level p takes as operand everything that binds tighter than p; `-` is a
    // prefix operator whatever follows it.
    // ================================================================================

    pub const MAXN: usize = /*@MAXN@*/;
    const CAP: usize = MAXN + 1;

    #[derive(Clone, Copy, PartialEq)]
    enum RK {
        Var,
        IntL,
        FloatL,
        Bin(TokenTag),
        Pre(TokenTag),
        Call,
        Member,
        Index,
        Unwrap,
        Try,
    }
    #[derive(Clone, Copy)]
    struct RNode {
        k: RK,
        a: usize,
        b: usize,
        lo: usize,
        hi: usize,
    }
    #[derive(Clone, Copy)]
    struct ROp {
        k: RK, // Bin / Pre, or Index = open-bracket marker
        level: u8,
        pos: usize,
    }
    struct Ref {
        toks: [TokenTag; MAXN],
        n: usize,
        nodes: [RNode; CAP],
        nn: usize,
        operands: [usize; CAP],
        no: usize,
        ops: [ROp; CAP],
        nops: usize,
        hw: usize,          // 1 + highest token position read
        right_assoc: bool,  // vacuity canary only: a deliberately wrong reference
    }
    impl Ref {
        fn cur(&mut self, pos: usize) -> TokenTag {
            if pos + 1 > self.hw {
                self.hw = pos + 1;
            }
            if pos < self.n { self.toks[pos] } else { TokenTag::Eof }
        }
        fn mk(&mut self, k: RK, a: usize, b: usize, lo: usize, hi: usize) -> usize {
            self.nodes[self.nn] = RNode { k, a, b, lo, hi };
            self.nn += 1;
            self.nn - 1
        }
        fn push_operand(&mut self, i: usize) {
            self.operands[self.no] = i;
            self.no += 1;
        }
        /// pop the top operator (not a marker) and apply it
        fn reduce_top(&mut self) {
            self.nops -= 1;
            let op = self.ops[self.nops];
            match op.k {
                RK::Bin(_) => {
                    let r = self.operands[self.no - 1];
                    let l = self.operands[self.no - 2];
                    self.no -= 2;
                    let (lo, hi) = (self.nodes[l].lo, self.nodes[r].hi);
                    let n = self.mk(op.k, l, r, lo, hi);
                    self.push_operand(n);
                }
                _ => {
                    let e = self.operands[self.no - 1];
                    self.no -= 1;
                    let hi = self.nodes[e].hi;
                    let n = self.mk(op.k, e, 0, op.pos, hi);
                    self.push_operand(n);
                }
            }
        }
        fn reduce_while_ge(&mut self, level: u8) {
            while self.nops > 0
                && self.ops[self.nops - 1].k != RK::Index
                && (self.ops[self.nops - 1].level > level || (self.ops[self.nops - 1].level == level && !self.right_assoc))
            {
                self.reduce_top();
            }
        }
        /// Some((root, tokens consumed)) when a prefix of the token string is an expression
        fn parse(&mut self) -> Option<(usize, usize)> {
            let mut pos = 0usize;
            let mut want_operand = true;
            loop {
                let t = self.cur(pos);
                if want_operand {
                    if let Some(p) = doc_tok_prefix(t) {
                        self.ops[self.nops] = ROp { k: RK::Pre(t), level: p, pos };
                        self.nops += 1;
                        pos += 1;
                        continue;
                    }
                    let k = match t {
                        TokenTag::Ident => RK::Var,
                        TokenTag::IntLit => RK::IntL,
                        TokenTag::FloatLit => RK::FloatL,
                        _ => return None,
                    };
                    let n = self.mk(k, 0, 0, pos, pos + 1);
                    self.push_operand(n);
                    pos += 1;
                    want_operand = false;
                    continue;
                }
                if let Some(p) = doc_tok_postfix(t) {
                    self.reduce_while_ge(p);
                    let e = self.operands[self.no - 1];
                    let lo = self.nodes[e].lo;
                    match t {
                        TokenTag::Bang | TokenTag::Question => {
                            pos += 1;
                            self.no -= 1;
                            let n = self.mk(if t == TokenTag::Bang { RK::Unwrap } else { RK::Try }, e, 0, lo, pos);
                            self.push_operand(n);
                        }
                        TokenTag::Dot => {
                            if self.cur(pos + 1) != TokenTag::Ident {
                                return None;
                            }
                            pos += 2;
                            self.no -= 1;
                            let n = self.mk(RK::Member, e, 0, lo, pos);
                            self.push_operand(n);
                        }
                        TokenTag::OpenParen => {
                            // argument lists are outside this unit: only `()` (see stub parse_func_call_args)
                            if self.cur(pos + 1) != TokenTag::CloseParen {
                                return None;
                            }
                            pos += 2;
                            self.no -= 1;
                            let n = self.mk(RK::Call, e, 0, lo, pos);
                            self.push_operand(n);
                        }
                        _ => {
                            // `[` : marker, then an index expression
                            self.ops[self.nops] = ROp { k: RK::Index, level: 0, pos };
                            self.nops += 1;
                            pos += 1;
                            want_operand = true;
                        }
                    }
                    continue;
                }
                if let Some(p) = doc_tok_binary(t) {
                    self.reduce_while_ge(p);
                    self.ops[self.nops] = ROp { k: RK::Bin(t), level: p, pos };
                    self.nops += 1;
                    pos += 1;
                    want_operand = true;
                    continue;
                }
                // not an operator: the (sub)expression ends here
                self.reduce_while_ge(0);
                if self.nops > 0 {
                    // inside `[ ... ` : must be the closing bracket
                    if t != TokenTag::CloseBracket {
                        return None;
                    }
                    self.nops -= 1;
                    pos += 1;
                    let idx = self.operands[self.no - 1];
                    let e = self.operands[self.no - 2];
                    self.no -= 2;
                    let lo = self.nodes[e].lo;
                    let n = self.mk(RK::Index, e, idx, lo, pos);
                    self.push_operand(n);
                    continue;
                }
                return Some((self.operands[0], pos));
            }
        }
    }

    /// structural equality of the real tree and the reference tree, spans included.
    /// A real negative-literal leaf covering the two tokens `-` LIT is the same tree as the
    /// reference's Pre(`-`, LIT)  (the value of `-` applied to a literal is that literal negated).
    fn same(e: &Expr, r: &Ref, i: usize) -> bool {
        let n = r.nodes[i];
        if e.loc.lo != n.lo || e.loc.hi != n.hi {
            return false;
        }
        match (&*e.kind, n.k) {
            (ExprKind::Variable(_), RK::Var) => true,
            (ExprKind::Int(_), RK::IntL) => true,
            (ExprKind::Float(_), RK::FloatL) => true,
            (ExprKind::Int(_), RK::Pre(TokenTag::Minus)) => {
                let c = r.nodes[n.a];
                c.k == RK::IntL && c.lo == n.lo + 1 && c.hi == n.hi
            }
            (ExprKind::Float(_), RK::Pre(TokenTag::Minus)) => {
                let c = r.nodes[n.a];
                c.k == RK::FloatL && c.lo == n.lo + 1 && c.hi == n.hi
            }
            (ExprKind::BinOp(l, op, rr), RK::Bin(t)) => {
                spec_binop(t) == Some(*op) && same(l, r, n.a) && same(rr, r, n.b)
            }
            (ExprKind::Unop(op, x), RK::Pre(t)) => {
                (match (op, t) {
                    (PrefixOp::Minus, TokenTag::Minus) => true,
                    (PrefixOp::Not, TokenTag::Not) => true,
                    _ => false,
                }) && same(x, r, n.a)
            }
            (ExprKind::FuncCall(f, args), RK::Call) => args.is_empty() && same(f, r, n.a),
            (ExprKind::MemberAccess(x, _), RK::Member) => same(x, r, n.a),
            (ExprKind::IndexAccess(x, ix), RK::Index) => same(x, r, n.a) && same(ix, r, n.b),
            (ExprKind::Unwrap(x), RK::Unwrap) => same(x, r, n.a),
            (ExprKind::Try(x), RK::Try) => same(x, r, n.a),
            _ => false,
        }
    }

    /*@ALPHABET@*/

    fn kind_for_tag(t: TokenTag) -> TokenKind {
        plain_kind(t) // payload strings empty (T2)
    }

    // ================================================================================
    // Exhaustive native enumeration (bounded): every token string of length <= maxn over
    // ALPHABET, real parse_expr_bp(0) vs. the reference.  A string is not extended when
    // neither parser read beyond its end (instrumented token vector TokVec / Ref::hw): all
    // its extensions then behave identically, so they are covered by the prefix.
    // ================================================================================

    #[derive(Default, Clone)]
    pub struct Report {
        pub runs: u64,
        pub covered_strings: f64, // runs + strings covered by pruning
        pub accepted: u64,
        pub accepted_maxlen: u64,
        pub rejected: u64,
        pub mismatch_plain: Vec<String>,
        pub n_mismatch_plain: u64,
        pub mismatch_neg: Vec<String>,
        pub n_mismatch_neg: u64,
        pub mismatch_nl: Vec<String>,
        pub n_mismatch_nl: u64,
    }

    /// structural equality of two REAL trees, leaves identified by the token they start at
    /// (`b` was parsed from the same tokens preceded by `shift` Newline tokens); inner spans are not compared
    fn same_shape(a: &Expr, b: &Expr, shift: usize) -> bool {
        match (&*a.kind, &*b.kind) {
            (ExprKind::Variable(_), ExprKind::Variable(_)) | (ExprKind::Int(_), ExprKind::Int(_)) | (ExprKind::Float(_), ExprKind::Float(_)) => {
                a.loc.lo + shift == b.loc.lo && a.loc.hi + shift == b.loc.hi
            }
            (ExprKind::BinOp(l1, o1, r1), ExprKind::BinOp(l2, o2, r2)) => o1 == o2 && same_shape(l1, l2, shift) && same_shape(r1, r2, shift),
            (ExprKind::Unop(o1, x1), ExprKind::Unop(o2, x2)) => {
                (match (o1, o2) {
                    (PrefixOp::Minus, PrefixOp::Minus) => true,
                    (PrefixOp::Not, PrefixOp::Not) => true,
                    _ => false,
                }) && same_shape(x1, x2, shift)
            }
            (ExprKind::FuncCall(f1, a1), ExprKind::FuncCall(f2, a2)) => a1.len() == a2.len() && same_shape(f1, f2, shift),
            (ExprKind::MemberAccess(x1, _), ExprKind::MemberAccess(x2, _)) => same_shape(x1, x2, shift),
            (ExprKind::IndexAccess(x1, i1), ExprKind::IndexAccess(x2, i2)) => same_shape(x1, x2, shift) && same_shape(i1, i2, shift),
            (ExprKind::Unwrap(x1), ExprKind::Unwrap(x2)) => same_shape(x1, x2, shift),
            (ExprKind::Try(x1), ExprKind::Try(x2)) => same_shape(x1, x2, shift),
            _ => false,
        }
    }

    /// C29: the real parse_expr on `Newline Newline s` against the real parse_expr_bp(0) on `s`
    fn leading_newlines(tags: &[TokenTag], got: &Result<Rc<Expr>, Box<Error>>, p: &Parser) -> Option<&'static str> {
        const K: usize = 2;
        let mut tokens: Vec<Token> = (0..K).map(|i| tok(kind_for_tag(TokenTag::Newline), i)).collect();
        tokens.extend(tags.iter().enumerate().map(|(i, t)| tok(kind_for_tag(*t), i + K)));
        let mut p2 = Parser::new(tokens.into(), 0, MAXN + K + 2);
        let got2 = p2.parse_expr();
        match (got, &got2) {
            (Ok(a), Ok(b)) => {
                if p.errors.is_empty() != p2.errors.is_empty() {
                    Some("diagnostics differ with two blank lines in front")
                } else if !same_shape(a, b, K) {
                    Some("a different tree is built with two blank lines in front")
                } else if p2.index != p.index + K {
                    Some("a different number of tokens is consumed with two blank lines in front")
                } else {
                    None
                }
            }
            (Err(_), Err(_)) => None,
            (Ok(_), Err(_)) => Some("rejected with two blank lines in front, accepted without"),
            (Err(_), Ok(_)) => Some("accepted with two blank lines in front, rejected without"),
        }
    }

    fn has_neg_adjacent(tags: &[TokenTag]) -> bool {
        let mut i = 1;
        while i < tags.len() {
            if tags[i - 1] == TokenTag::Minus && (tags[i] == TokenTag::IntLit || tags[i] == TokenTag::FloatLit) {
                return true;
            }
            i += 1;
        }
        false
    }

    /// -> (verdict: None = agree, Some(why) = differ; accepted; 1 + highest position read by either parser)
    fn run_one(tags: &[TokenTag], right_assoc: bool) -> (Option<&'static str>, bool, usize, Option<&'static str>) {
        let n = tags.len();
        let mut toks = [TokenTag::Eof; MAXN];
        toks[..n].copy_from_slice(tags);
        let mut r = Ref {
            toks,
            n,
            nodes: [RNode { k: RK::Var, a: 0, b: 0, lo: 0, hi: 0 }; CAP],
            nn: 0,
            operands: [0; CAP],
            no: 0,
            ops: [ROp { k: RK::Var, level: 0, pos: 0 }; CAP],
            nops: 0,
            hw: 0,
            right_assoc,
        };
        let want = r.parse();
        let tokens: Vec<Token> = tags.iter().enumerate().map(|(i, t)| tok(kind_for_tag(*t), i)).collect();
        let mut p = Parser::new(tokens.into(), 0, MAXN + 2);
        let got = p.parse_expr_bp(0);
        let hw = r.hw.max(p.tokens.high_water());
        let verdict = match (&got, want) {
            (Ok(e), Some((root, used))) => {
                if !p.errors.is_empty() {
                    Some("reference accepts, parser reports diagnostics")
                } else if !same(e, &r, root) {
                    Some("tree differs from the documented-table reference")
                } else if p.index != used {
                    Some("parser consumed a different number of tokens than the reference")
                } else {
                    None
                }
            }
            (Ok(_), None) => {
                if p.errors.is_empty() { Some("parser accepts a string the reference rejects") } else { None }
            }
            (Err(_), Some(_)) => Some("parser rejects a string the reference accepts"),
            (Err(_), None) => None,
        };
        let nl = leading_newlines(tags, &got, &p);
        (verdict, want.is_some(), hw, nl)
    }

    /// keep the 12 examples with the fewest tokens
    fn keep_shortest(v: &mut Vec<String>, text: String) {
        let ntok = |t: &String| t.split(':').next().unwrap_or("").split(' ').count();
        if v.len() < 12 {
            v.push(text);
        } else {
            let (mut worst, mut wl) = (0, 0);
            for (i, t) in v.iter().enumerate() {
                if ntok(t) > wl {
                    wl = ntok(t);
                    worst = i;
                }
            }
            if ntok(&text) < wl {
                v[worst] = text;
            }
        }
        v.sort_by_key(|t| ntok(t));
    }

    fn dfs(s: &mut Vec<TokenTag>, maxn: usize, right_assoc: bool, rep: &mut Report) {
        let (verdict, accepted, hw, nl) = run_one(s, right_assoc);
        if let Some(why) = nl {
            rep.n_mismatch_nl += 1;
            keep_shortest(&mut rep.mismatch_nl, format!("{}: {}", s.iter().map(|t| format!("{:?}", t)).collect::<Vec<_>>().join(" "), why));
        }
        rep.runs += 1;
        rep.covered_strings += 1.0;
        if accepted {
            rep.accepted += 1;
            if s.len() == maxn {
                rep.accepted_maxlen += 1;
            }
        } else {
            rep.rejected += 1;
        }
        if let Some(why) = verdict {
            let text = format!("{}: {}", s.iter().map(|t| format!("{:?}", t)).collect::<Vec<_>>().join(" "), why);
            if has_neg_adjacent(s) {
                rep.n_mismatch_neg += 1;
                keep_shortest(&mut rep.mismatch_neg, text);
            } else {
                rep.n_mismatch_plain += 1;
                keep_shortest(&mut rep.mismatch_plain, text);
            }
        }
        if s.len() == maxn {
            return;
        }
        if hw <= s.len() {
            // neither parser looked past the end of s: every extension behaves like s
            let a = ALPHABET.len() as f64;
            let mut k = 1;
            let mut pw = a;
            while s.len() + k <= maxn {
                rep.covered_strings += pw;
                pw *= a;
                k += 1;
            }
            return;
        }
        for t in ALPHABET.iter() {
            s.push(*t);
            dfs(s, maxn, right_assoc, rep);
            s.pop();
        }
    }

    #[cfg(not(kani))]
    pub fn enumerate_main() {
        let args: Vec<String> = std::env::args().collect();
        let maxn: usize = args.get(1).and_then(|a| a.parse().ok()).unwrap_or(MAXN).min(MAXN);
        let right_assoc = args.get(2).map(|a| a == "canary").unwrap_or(false);
        // one thread per first token
        let mut handles = vec![];
        for t in ALPHABET.iter() {
            let t = *t;
            handles.push(std::thread::spawn(move || {
                let mut rep = Report::default();
                let mut s = vec![t];
                if maxn >= 1 {
                    dfs(&mut s, maxn, right_assoc, &mut rep);
                }
                rep
            }));
        }
        let mut total = Report::default();
        // the empty string
        let (v, acc, _, nl0) = run_one(&[], right_assoc);
        if let Some(why) = nl0 {
            total.n_mismatch_nl += 1;
            total.mismatch_nl.push(format!("<empty>: {}", why));
        }
        total.runs += 1;
        total.covered_strings += 1.0;
        if acc { total.accepted += 1 } else { total.rejected += 1 }
        if let Some(why) = v {
            total.n_mismatch_plain += 1;
            total.mismatch_plain.push(format!("<empty>: {}", why));
        }
        for h in handles {
            let r = h.join().expect("enumeration thread panicked");
            total.runs += r.runs;
            total.covered_strings += r.covered_strings;
            total.accepted += r.accepted;
            total.accepted_maxlen += r.accepted_maxlen;
            total.rejected += r.rejected;
            total.n_mismatch_plain += r.n_mismatch_plain;
            total.n_mismatch_neg += r.n_mismatch_neg;
            total.n_mismatch_nl += r.n_mismatch_nl;
            for m in r.mismatch_nl { keep_shortest(&mut total.mismatch_nl, m) }
            for m in r.mismatch_plain { keep_shortest(&mut total.mismatch_plain, m) }
            for m in r.mismatch_neg { keep_shortest(&mut total.mismatch_neg, m) }
        }
        let q = |v: &Vec<String>| v.iter().map(|m| format!("{:?}", m)).collect::<Vec<_>>().join(",");
        println!(
            "{{\"maxn\":{},\"alphabet\":{},\"runs\":{},\"covered_strings\":{},\"accepted\":{},\"accepted_maxlen\":{},\"rejected\":{},\"n_mismatch_plain\":{},\"n_mismatch_neg\":{},\"mismatch_plain\":[{}],\"mismatch_neg\":[{}],\"n_mismatch_nl\":{},\"mismatch_nl\":[{}]}}",
            maxn, ALPHABET.len(), total.runs, total.covered_strings, total.accepted, total.accepted_maxlen, total.rejected,
            total.n_mismatch_plain, total.n_mismatch_neg, q(&total.mismatch_plain), q(&total.mismatch_neg), total.n_mismatch_nl, q(&total.mismatch_nl)
        );
    }
}

// ---- T5: the parser's token vector, instrumented (read high-water mark), same `get` API ----
pub(crate) struct TokVec {
    v: Vec<Token>,
    hw: std::cell::Cell<usize>,
}
impl From<Vec<Token>> for TokVec {
    fn from(v: Vec<Token>) -> Self {
        TokVec { v, hw: std::cell::Cell::new(0) }
    }
}
impl TokVec {
    pub(crate) fn get(&self, i: usize) -> Option<&Token> {
        if i + 1 > self.hw.get() {
            self.hw.set(i + 1);
        }
        self.v.get(i)
    }
    pub(crate) fn high_water(&self) -> usize {
        self.hw.get()
    }
}
