"""Run several Kani harnesses of one scratch crate in ONE `cargo kani` invocation (one
compilation instead of one per harness; engine.run_kani compiles once per harness, which
costs 40-150 s each on a loaded machine).  Result format = engine.run_kani's.
Identical copies of this file live in units/u12_prec, u13_named_args, u14_exhaustiveness."""
import os
import re
import shutil
import subprocess
import threading
import time
import engine as E

MEM_LIMIT_MB = int(os.environ.get("KANI_MEM_LIMIT_MB", "4096"))


def _watchdog(crate_dir, stop, killed):
    """Kill any cbmc started from crate_dir whose resident set exceeds MEM_LIMIT_MB (the machine is shared)."""
    real = os.path.realpath(crate_dir)
    while not stop.wait(2.0):
        for pid in os.listdir('/proc'):
            if not pid.isdigit():
                continue
            try:
                with open('/proc/%s/comm' % pid) as f:
                    if f.read().strip() != 'cbmc':
                        continue
                if not os.path.realpath(os.readlink('/proc/%s/cwd' % pid)).startswith(real):
                    continue
                with open('/proc/%s/status' % pid) as f:
                    m = re.search(r'VmRSS:\s+(\d+) kB', f.read())
                if m and int(m.group(1)) / 1024 > MEM_LIMIT_MB:
                    os.kill(int(pid), 9)
                    killed.append(int(m.group(1)) // 1024)
            except (OSError, ValueError):
                continue


def _parse_section(raw):
    failed, cover = [], []
    for m in re.finditer(r'Check \d+: ([^\n]+)\n\s*- Status: (\w+)\n\s*- Description: "([^\n]*)"\n(?:\s*- Location: ([^\n]+))?', raw):
        name, st, desc, loc = m.group(1), m.group(2), m.group(3), m.group(4) or ""
        if ".cover." in name or name.startswith("cover"):
            cover.append((desc, st))
        elif st == "FAILURE":
            failed.append("%s @ %s" % (desc, loc.strip()))
    if "VERIFICATION:- SUCCESSFUL" in raw:
        status = E.DISCHARGED
    elif "VERIFICATION:- FAILED" in raw:
        status = E.FAILED
        if not failed:
            status = E.UNDECIDED  # unwinding assertion / unsupported construct / CBMC crash
        elif all(("unwinding assertion" in f) or ("is not currently supported" in f) for f in failed):
            status = E.UNDECIDED
    else:
        status = E.UNDECIDED
    return status, failed, cover


def run(crate_dir, harnesses, timeout=600, playback=False, extra=(), retry=True):
    """-> {harness: dict(status, failed, time_s, raw, cover, playback)}.  Harnesses whose CBMC process was
    killed from outside (other agents `pkill cbmc`: "CBMC failed with status 15/9") or that were not reached
    are re-run once."""
    out = _run(crate_dir, harnesses, timeout, playback, extra)
    if retry:
        again = [h for h in harnesses if out[h]['status'] == E.UNDECIDED and not out.get("_mem_killed") and
                 re.search(r'CBMC failed with status|harness not reached|timeout \d+s', out[h]['raw'])]
        if again:
            out2 = _run(crate_dir, again, timeout, playback, extra)
            for h in again:
                out2[h]['retried'] = True
                out[h] = out2[h]
            out["_wall_s"] += out2["_wall_s"]
    return out


def _run(crate_dir, harnesses, timeout, playback, extra):
    t0 = time.time()
    cmd = ["cargo", "kani", "-Z", "function-contracts", "-Z", "stubbing", "--exact", "--output-format", "regular"]
    for h in harnesses:
        cmd += ["--harness", h]
    if playback:
        cmd += ["-Z", "concrete-playback", "--concrete-playback=print"]
    cmd += list(extra)
    env = E.kani_env()
    tdir = os.path.join(crate_dir, "target-kani")
    env["CARGO_TARGET_DIR"] = tdir
    stop, killed = threading.Event(), []
    wd = threading.Thread(target=_watchdog, args=(crate_dir, stop, killed), daemon=True)
    wd.start()
    try:
        p = subprocess.run(["timeout", str(timeout)] + cmd, capture_output=True, text=True, cwd=crate_dir, env=env)
    finally:
        stop.set()
    raw = p.stdout + "\n" + p.stderr
    if killed:
        raw += "\n[kmulti] cbmc killed by the memory watchdog at %s MB (limit %d MB): too expensive, UNDECIDED\n" % (killed, MEM_LIMIT_MB)
    shutil.rmtree(tdir, ignore_errors=True)
    wall = time.time() - t0
    # split on "Checking harness <name>..."
    parts = re.split(r'^Checking harness ([^\n]+?)\.\.\.\s*$', raw, flags=re.M)
    sections = {}
    for i in range(1, len(parts) - 1, 2):
        sections[parts[i].strip()] = parts[i + 1]
    out = {}
    for h in harnesses:
        sec = sections.get(h)
        if sec is None:
            why = "timeout %ds" % timeout if p.returncode == 124 else "harness not reached"
            out[h] = dict(status=E.UNDECIDED, failed=[], time_s=wall, raw=why + "\n" + raw[-3000:], cover=[], playback=None)
            continue
        status, failed, cover = _parse_section(sec)
        m = re.search(r'Verification Time: ([0-9.]+)s', sec)
        if killed and status == E.UNDECIDED:
            sec += "\n[kmulti] cbmc killed by the memory watchdog (limit %d MB): too expensive for this tier\n" % MEM_LIMIT_MB
        out[h] = dict(status=status, failed=failed, time_s=float(m.group(1)) if m else 0.0, raw=sec[-6000:], cover=cover,
                      playback=E.parse_playback(sec) if playback else None)
    out["_wall_s"] = wall
    out["_cmd"] = " ".join(cmd)
    out["_mem_killed"] = killed
    return out
