"""U7: deep copy / tasks / channels on the real vm.rs (Kani; bounded value shapes).

C08  Value::deep_copy (one harness per concrete value shape), arm SpawnTask.
C09  arms ConstructChannel / ChannelWrite / ChannelRead, ChannelObject::{new,new_with_data,
     read_value,write_value,copy}, impl Drop for VmGreenThread (ownership of queued values),
     the Channel branch of process_gray (a collector tracing into another thread's heap).

Every shape is concrete down to the TAG of each scalar leaf (a symbolic tag makes CBMC explore
every arm of the recursive `match self.1` at every level: > 10 min); scalar payload bits, string
bytes (ASCII), variant tags, program counters and unrelated stack slots are symbolic.
"""
import os
import shutil
from units import vmk
import abra_cli
import engine as E

HERE = os.path.dirname(os.path.abspath(__file__))
UNIT = "U7-copy"
ARMS = ['SpawnTask', 'ChannelRead', 'ChannelWrite', 'ConstructChannel', 'SetField', 'SetIndex', 'ArrayPush']

B = ("value shape fixed per harness (depth <= 2, width <= 2, strings of 0..2 ASCII bytes, scalar leaf tags fixed per "
     "instance with all four scalar tags covered); scalar bits, string bytes, variant tag, pc symbolic")
COPY = ("w = v.deep_copy(B), v in thread A's heap: v and w both match the shape's model with the same leaves (same tags, lengths, "
        "scalars, string bytes); every object reachable from w is an element of B.heap_list, B.heap_list has exactly one new object "
        "per object of v and shares no pointer with A.heap_list; B.heap_size == sum of nbytes() of B's objects; A's heap list, "
        "heap_size and stack unchanged; then a mutation with the real SetField/SetIndex/ArrayPush arm through the copy (on B) "
        "leaves v matching the model, and a mutation through v (on A) leaves w matching the model")


def _h(*names):
    return ["vm::u7::" + n for n in names]


T = [
    dict(h=_h("copy_scalar_int", "copy_scalar_float", "copy_scalar_bool", "copy_scalar_addr"), id="C08.deep_copy.scalar.post",
         props=["C08"], fn="Value::deep_copy", bounded=B,
         text="Int/Float/Bool/Addr (one instance per tag, all payload bits): returned unchanged, no allocation, nothing touched"),
    dict(h=_h("copy_str0", "copy_str1", "copy_str2"), id="C08.deep_copy.string.post", props=["C08"],
         fn="Value::deep_copy / StringObject::new", bounded=B, text="string of 0, 1, 2 bytes: " + COPY),
    dict(h=_h("copy_struct2", "copy_closure"), id="C08.deep_copy.struct_scalars.post", props=["C08"],
         fn="Value::deep_copy / StructObject::new", bounded=B, text="struct{scalar,scalar} (tuple; closure = {Addr, capture}): " + COPY),
    dict(h=_h("copy_struct_str"), id="C08.deep_copy.struct_string.post", props=["C08"], fn="Value::deep_copy", bounded=B,
         text="struct{string}: " + COPY),
    dict(h=_h("copy_var_scalar"), id="C08.deep_copy.variant_scalar.post", props=["C08"], fn="Value::deep_copy / EnumObject::new",
         bounded=B, text="variant(tag, scalar), all u16 tags: " + COPY),
    dict(h=_h("copy_var_struct"), id="C08.deep_copy.variant_struct.post", props=["C08"], fn="Value::deep_copy", bounded=B,
         text="variant(tag, struct{scalar,scalar}): " + COPY),
    dict(h=_h("copy_arr0", "copy_arr1", "copy_arr2"), id="C08.deep_copy.array_scalar.post", props=["C08"],
         fn="Value::deep_copy / ArrayObject::new", bounded=B, text="array[scalar; 0..2]: " + COPY),
    dict(h=_h("copy_arr_str"), id="C08.deep_copy.array_string.post", props=["C08"], fn="Value::deep_copy", bounded=B,
         text="array[string; 1]: " + COPY),
    dict(h=_h("copy_struct_arr"), id="C08.deep_copy.struct_array.post", props=["C08"], fn="Value::deep_copy", bounded=B,
         text="struct{array[scalar;1], scalar}: " + COPY),
    dict(h=_h("copy_nest_struct"), id="C08.deep_copy.nested_struct.post", props=["C08"], fn="Value::deep_copy", bounded=B,
         text="depth 2 without arrays, struct{struct{scalar,scalar}, string}: " + COPY),
    dict(h=_h("copy_nest_arr"), id="C08.deep_copy.nested_array.post", props=["C08"], fn="Value::deep_copy", bounded=B,
         text="depth 2, array[array[scalar;1], array[scalar;1]]: " + COPY),
    dict(h=_h("copy_mix_int_str", "copy_mix_job", "copy_mix_tuple"), id="C08.deep_copy.struct_mixed.post", props=["C08"],
         fn="Value::deep_copy / StructObject::new", bounded=B,
         text="records mixing scalar and heap fields in ONE struct - struct{Int, string}, struct{Int, array[Float;1], string} "
              "(Job{id, items, label}), tuple{Bool, struct{string}}: " + COPY),
    dict(h=_h("copy_struct_var", "copy_struct_var_arr", "copy_arr_struct", "copy_arr_var", "copy_var_str", "copy_var_arr", "copy_var_var"),
         id="C08.deep_copy.container_pairs.post", props=["C08"], fn="Value::deep_copy", bounded=B,
         text="the remaining (container kind x element kind) pairs - struct{variant, scalar}, struct{variant(array[1]), scalar} (a record holding an "
              "option<array>), array[struct], array[variant], variant(string), variant(array[1]), variant(variant): " + COPY),
    dict(h=_h("copy_chan"), id="C08.deep_copy.channel.post", props=["C08", "C09"], fn="Value::deep_copy / ChannelObject::copy",
         bounded=B,
         text="channel: a NEW ChannelObject owned by B whose queue is the SAME queue (Arc::ptr_eq); a value written through the "
              "original is read through the copy"),
    dict(h=_h("spawn_0", "spawn_scalar_struct_str", "spawn_str_struct", "spawn_var_scalar", "spawn_mix_job", "spawn_chan"),
         id="C08.spawn.captures_copied", props=["C08"], fn="step arm SpawnTask", bounded=B + "; n <= 2 captures",
         text="SpawnTask(n, target): pops exactly n values (slot below untouched), spawner pc/heap list/heap_size unchanged; exactly "
              "one new thread is sent to the runtime: pc == target, stack == the n deep copies in the same order (model match, owned "
              "by the new thread's heap, disjoint from the spawner's), stack_base 0, not done/no error; a mutation of the first capture "
              "by the spawner after the spawn (real arms) leaves the task's copy matching the model; one capture is a mixed "
              "struct{Int, array, string}; a captured channel shares the queue"),
    dict(h=_h("spawn_arr_str"), id="C08.spawn.captures_copied.array", props=["C08"], fn="step arm SpawnTask / Value::deep_copy",
         bounded=B, text="same contract, captures (array[scalar;1], string) - the language reference's own example captures an array"),
    dict(h=_h("fifo_one_scalar", "fifo_one_str_struct", "fifo_one_mix_int_str", "fifo_two_scalar", "fifo_two_str_struct",
              "fifo_two_mix_job", "fifo_many_scalars"), id="C09.chan.write_read.fifo",
         props=["C09", "C08"], fn="step arms ConstructChannel, ChannelWrite, ChannelRead / ChannelObject::{new,write_value,read_value}",
         bounded=B + "; histories write,write,read,read on one thread and writer A / reader B; one history of five scalar values (4 queued, 2 read, 1 written, 3 read)",
         text="each write consumes (channel, value) and appends one element; each read replaces the channel on the stack by a value and "
              "removes exactly one element; first read matches the model of the FIRST written value, second the SECOND; received values "
              "are made only of objects allocated by that read in the reader's heap (disjoint from the writer's); writer undisturbed; "
              "a mutation of the received value on the reader (real arms) leaves the writer's value matching the model; payloads "
              "include mixed records struct{Int, string} and struct{Int, array, string}"),
    dict(h=_h("fifo_two_arr"), id="C09.chan.write_read.fifo.array", props=["C09", "C08"], fn="step arm ChannelRead / Value::deep_copy",
         bounded=B, text="same contract with an array payload"),
    dict(h=_h("read_empty_suspends"), id="C09.chan.read_empty.suspends", props=["C09"], fn="step arm ChannelRead",
         bounded="reader stack = one unrelated slot + the channel; all pc >= 1, all slot values",
         text="ChannelRead on an empty channel (any pc >= 1, any slot below): returns true, no error, not done, pc rewound by exactly 1, "
              "channel back on the stack, heap/stack_base/call stack unchanged, the other thread and the runtime queue untouched; "
              "after a write the retried read succeeds and leaves pc alone"),
    dict(h=_h("ownership_drop_scalar", "ownership_drop_str", "ownership_drop_struct"), id="C09.chan.write.ownership", props=["C09"],
         fn="step arms ChannelWrite, ChannelRead / impl Drop for VmGreenThread", bounded=B,
         text="A creates the channel, B holds a copy; A writes a freshly built scalar / string / struct and is DROPPED (what "
              "Runtime::finish_thread_turn does to a finished task); B's read then performs only valid memory accesses and yields a "
              "value matching the model of what was written, owned by B"),
    dict(h=_h("gc_foreign_mark", "gc_interleaved"), id="C09.chan.gc.foreign_heap", props=["C09"],
         fn="VmGreenThread::{start_mark_phase,process_gray,mark,sweep} (Channel branch)", bounded=B,
         text="B traces through its channel while the queue holds a struct of A: B's collector does not write the mark bit of A's object "
              "nor put it on B's gray stack; and the interleaving B-marks-one-increment / A-full-collection / B-finishes-marking / B-reads "
              "performs only valid memory accesses and delivers the written value"),
]

ASSUME = [
    "kani/u7: std Arc/Mutex/VecDeque/mpsc are the single-threaded FIFO shims of units/vmk/shim.rs (Arc = Rc, Mutex = RefCell, "
    "VecDeque = Vec with remove(0), mpsc = shared Vec): FIFO order of the queue is ASSUMED from std, not proved; no real concurrency",
    "kani/u7: value shapes and scalar leaf tags are concrete per harness; strings are ASCII (String::from_utf8_unchecked of bytes < 128)",
    "kani/u7: ChannelRead is entered with pc >= 1 (step() increments pc before dispatch; dispatch and increment are not verified)",
    "kani/u7: dropping a finished task is modelled by Rust `drop(thread)` (Runtime::finish_thread_turn itself is U8's subject)",
    "kani/u7: kani::assume count = 3 (ASCII bytes; replacement scalar differs from the leaves; pc >= 1)",
]


def run(tier="quick"):
    return vmk.run_table(UNIT, "u7", ARMS, os.path.join(HERE, "harness.rs"), T, timeout=900, jobs=3,
                         extra_info=dict(assumptions=ASSUME))


# --------------------------------------------------------------------------- replays on the real CLI
BOOK_EXAMPLE = """let numbers = [1, 2, 3]
let done: channel<int> = channel()

task {
    numbers.push(4)
    done.write(numbers.len())
}

println(numbers.len())   // 3
println(done.read())     // 4
"""
# the writer task finishes (and is dropped by the runtime) long before the main program reads
OWNERSHIP = """let c: channel<string> = channel()
task {
    c.write("hello " .. "from the finished task")
}
var i = 0
while i < 2000 {
    i = i + 1
}
println(c.read())
"""
OWNERSHIP_WANT = "hello from the finished task\n"
# No task finishes and both keep their channel.  The task queues 400 (string, string) tuples and keeps allocating (so its own
# collector runs); the main program, whose heap is a few channels (tiny gc_debt => its marking advances a few objects per step),
# starts a collection after KKK loop iterations.  Main's marking sets the mark bit of the task's tuples through the shared queue;
# a collection of the task that falls inside that window sees the tuples "already marked", does not trace their strings and
# frees them; main later reads tuples whose strings are freed memory.  KKK selects the phase (scanned by the replay).
GC_FOREIGN = """let c: channel<(string, string)> = channel()
let stop: channel<int> = channel()
let ready: channel<int> = channel()
task {
    var i = 0
    while i < 400 {
        c.write(("item " .. i.str(), "x" .. i.str()))
        i = i + 1
    }
    ready.write(1)
    var j = 0
    var t = [0]
    while j < 100000 {
        t = [j, j, j, j, j, j, j, j, j, j, j, j, j, j, j, j]
        j = j + 1
    }
    stop.read()
}
ready.read()
var k = 0
while k < KKK {
    k = k + 1
}
let c2: channel<int> = channel()
let c3: channel<int> = channel()
let c4: channel<int> = channel()
let c5: channel<int> = channel()
let c6: channel<int> = channel()
let c7: channel<int> = channel()
var m = 0
while m < 4000 {
    m = m + 1
}
var n = 0
var bad = 0
while n < 400 {
    let (a, b) = c.read()
    if a != "item " .. n.str() {
        bad = bad + 1
        println(a)
    }
    n = n + 1
}
println(bad)
"""
ARRAY_IDS = ("C08.deep_copy.array_scalar.post", "C08.deep_copy.array_string.post", "C08.deep_copy.struct_array.post",
             "C08.deep_copy.nested_array.post", "C08.spawn.captures_copied.array", "C09.chan.write_read.fifo.array")


def _valgrind(src):
    vg = shutil.which("valgrind")
    if not vg:
        return None, "valgrind not installed"
    import subprocess
    import tempfile
    b = abra_cli.build()
    with tempfile.TemporaryDirectory(prefix="abra-replay.") as d:
        f = os.path.join(d, "main.abra")
        with open(f, "w") as fh:
            fh.write(src)
        try:
            p = subprocess.run([vg, "-q", "--error-exitcode=9", b, "--standard-modules", os.path.join(abra_cli.REPO, "modules"), f],
                               capture_output=True, text=True, timeout=600)
        except subprocess.TimeoutExpired:
            return None, "valgrind timeout"
    bad = p.returncode == 9 and ("Invalid read" in p.stderr or "Invalid write" in p.stderr)
    return (True if bad else None), p.stderr[:1500]


def _copy_family(chan=False):
    """C08 / C09 on the real CLI: the first program of replay_programs.PROGS (tasks) or CHAN_PROGS (channels, writer kept
    alive) in which a mutation leaks between the two sides (or which crashes), else None."""
    from . import replay_programs
    ran = []
    for name, src, want in (replay_programs.CHAN_PROGS if chan else replay_programs.PROGS):
        out, err, rc = abra_cli.run_program(src)
        ran.append(name)
        if out != want or rc != 0:
            return True, dict(program=src, program_name=name, expected=want, real_output=(out + err)[:1200], exit_code=rc,
                              programs_run=ran, note="each side must print its own unmodified value")
    return None, dict(note="every program printed the unmodified value on each side", programs_run=ran)


def replay(ob):
    if ob.id in ARRAY_IDS:
        out, err, rc = abra_cli.run_program(BOOK_EXAMPLE)
        good = (out == "3\n4\n" and rc == 0)
        if not good:
            return True, dict(
                program=BOOK_EXAMPLE, source="book/src/language_reference/tasks_and_channels.md (Capturing values)",
                expected="3\\n4\\n", real_output=(out + err)[:1200], exit_code=rc)
        if ob.id.startswith("C09."):
            return None, dict(program=BOOK_EXAMPLE, expected="3\\n4\\n", real_output=out, exit_code=rc,
                              note="the reference's array example runs correctly; no CLI program for an array payload in a channel")
    if ob.id.startswith("C08.deep_copy.") or ob.id.startswith("C08.spawn."):
        return _copy_family()
    if ob.id == "C09.chan.write_read.fifo":
        return _copy_family(chan=True)
    if ob.id == "C09.chan.write.ownership":
        out, err, rc = abra_cli.run_program(OWNERSHIP)
        extra = dict(program=OWNERSHIP, expected=OWNERSHIP_WANT, real_output=(out + err)[:1200], exit_code=rc)
        if out != OWNERSHIP_WANT or rc != 0:
            return True, extra  # garbage / host panic from reading freed memory
        bad, log = _valgrind(OWNERSHIP)  # use-after-free whose bytes happened to survive: ask valgrind
        extra["valgrind"] = log
        return (True if bad else (False if bad is False else None)), extra
    if ob.id == "C09.chan.gc.foreign_heap":
        tried = []
        for k in range(0, 1640, 40):
            out, err, rc = abra_cli.run_program(GC_FOREIGN.replace("KKK", str(k)))
            tried.append(k)
            if out != "0\n" or rc != 0:
                return True, dict(program=GC_FOREIGN.replace("KKK", str(k)), phase_k=k, phases_tried=tried, expected="0\n",
                                  real_output=(out + err)[:1200], exit_code=rc)
        return None, dict(note="no phase in 0..1600 step 40 showed corruption (use-after-free may be silent; timing dependent)",
                          phases_tried=tried)
    return None, dict(note="no CLI replay for this obligation")
