// U7: Value::deep_copy, arm SpawnTask, channels (ConstructChannel / ChannelWrite / ChannelRead,
// ChannelObject::{new,new_with_data,read_value,write_value,copy}), impl Drop for VmGreenThread and the
// channel branch of process_gray, all on the REAL vm.rs text (module `vm` of the vmk crate).
//
// Value SHAPES are concrete (one harness per shape, `Sh`, including the TAG of every scalar leaf); leaf
// contents (scalar payload bits, string bytes, variant tag, pc, extra stack slots) are symbolic.  The postconditions are stated against a MODEL of
// the shape (`expect`): a value "has shape sh with leaves lv and every object reachable from it is an
// element of heap list h".  Original and copy both matching the same model = structural equality;
// ownership by two disjoint heap lists = pointer-disjointness.
#[cfg(kani)]
mod u7 {
    use super::hs::*;
    use super::*;

    type Hp = *mut ObjectHeader;

    #[derive(Clone, Copy, PartialEq, Eq)]
    enum Sh {
        Scalar,     // any Int/Float/Bool/Addr
        Str0,       // ""
        Str1,       // one symbolic ASCII byte
        Str2,       // two symbolic ASCII bytes
        Struct2,    // struct{scalar, scalar}   (also: tuple, closure = {Addr, capture})
        StructStr,  // struct{string}
        VarScalar,  // variant(tag, scalar)
        VarStruct,  // variant(tag, struct{scalar, scalar})
        Arr(usize), // array[scalar; 0..=2]
        ArrStr,     // array[string; 1]
        StructArr,  // struct{array[scalar;1], scalar}
        NestStruct, // struct{struct{scalar,scalar}, string}          depth 2, no array
        NestArr,    // array[array[scalar;1], array[scalar;1]]        depth 2
        // records mixing scalar and heap fields in ONE struct
        MixIntStr, // struct{scalar, string}
        MixJob,    // struct{scalar, array[scalar;1], string}       (Job{id, items, label})
        MixTuple,  // tuple{scalar, struct{string}}                  depth 2
        // the remaining (container kind x element kind) pairs
        StructVar,    // struct{variant(tag, scalar), scalar}
        StructVarArr, // struct{variant(tag, array[scalar;1]), scalar}    (a record holding an option<array>)
        ArrStruct,    // array[struct{scalar, scalar}]
        ArrVar,       // array[variant(tag, scalar)]
        VarStr,       // variant(tag, string)
        VarArr,       // variant(tag, array[scalar;1])
        VarVar,       // variant(tag, variant(tag, scalar))
    }

    /// symbolic leaves of a shape
    #[derive(Clone, Copy)]
    struct Lv {
        e: [Value; 2],
        s: [u8; 2],
        tag: u16,
    }
    /// a scalar with a CONCRETE tag and symbolic payload bits.  (A symbolic tag makes CBMC's symbolic
    /// execution of the recursive `match self.1` in deep_copy explore every arm at every level: measured
    /// > 10 min; with concrete tags the heap contents are constant-propagated and a harness takes seconds.)
    fn sc(tag: ValueTag) -> Value {
        let bits: u64 = kani::any();
        match tag {
            ValueTag::Bool => Value(bits & 1, ValueTag::Bool),
            ValueTag::Addr => Value(bits & 0xffff_ffff, ValueTag::Addr),
            ValueTag::Float => Value(bits, ValueTag::Float),
            _ => Value(bits, ValueTag::Int),
        }
    }
    const IF: (ValueTag, ValueTag) = (ValueTag::Int, ValueTag::Float);
    const BA: (ValueTag, ValueTag) = (ValueTag::Bool, ValueTag::Addr);
    const AI: (ValueTag, ValueTag) = (ValueTag::Addr, ValueTag::Int); // a closure: code address + captured value
    fn any_lv(tags: (ValueTag, ValueTag)) -> Lv {
        let s0: u8 = kani::any();
        let s1: u8 = kani::any();
        // ASCII only: every such byte string is valid UTF-8 (from_utf8 validation is not under test)
        kani::assume(s0 < 128 && s1 < 128);
        Lv { e: [sc(tags.0), sc(tags.1)], s: [s0, s1], tag: kani::any() }
    }
    fn ascii(bytes: Vec<u8>) -> String {
        unsafe { String::from_utf8_unchecked(bytes) }
    }

    /// number of heap objects of a value of shape sh
    fn nodes(sh: Sh) -> usize {
        match sh {
            Sh::Scalar => 0,
            Sh::Str0 | Sh::Str1 | Sh::Str2 | Sh::Struct2 | Sh::VarScalar | Sh::Arr(_) => 1,
            Sh::StructStr | Sh::VarStruct | Sh::ArrStr | Sh::StructArr | Sh::MixIntStr => 2,
            Sh::StructVar | Sh::ArrStruct | Sh::ArrVar | Sh::VarStr | Sh::VarArr | Sh::VarVar => 2,
            Sh::NestStruct | Sh::NestArr | Sh::MixJob | Sh::MixTuple | Sh::StructVarArr => 3,
        }
    }

    // ---------------------------------------------------------------- construction (real constructors)
    fn b_str(t: &mut VmGreenThread, bytes: Vec<u8>) -> Value {
        Value::from(StringObject::new(ascii(bytes), t))
    }
    fn b_struct(t: &mut VmGreenThread, f: Vec<Value>) -> Value {
        Value::from(StructObject::new(f, t))
    }
    fn b_arr(t: &mut VmGreenThread, f: Vec<Value>) -> Value {
        Value::from(ArrayObject::new(f, t))
    }
    fn build(sh: Sh, t: &mut VmGreenThread, lv: &Lv) -> Value {
        match sh {
            Sh::Scalar => lv.e[0],
            Sh::Str0 => b_str(t, vec![]),
            Sh::Str1 => b_str(t, vec![lv.s[0]]),
            Sh::Str2 => b_str(t, vec![lv.s[0], lv.s[1]]),
            Sh::Struct2 => b_struct(t, vec![lv.e[0], lv.e[1]]),
            Sh::StructStr => {
                let s = b_str(t, vec![lv.s[0]]);
                b_struct(t, vec![s])
            }
            Sh::VarScalar => Value::from(EnumObject::new(lv.tag, lv.e[0], t)),
            Sh::VarStruct => {
                let s = b_struct(t, vec![lv.e[0], lv.e[1]]);
                Value::from(EnumObject::new(lv.tag, s, t))
            }
            Sh::Arr(0) => b_arr(t, vec![]),
            Sh::Arr(1) => b_arr(t, vec![lv.e[0]]),
            Sh::Arr(_) => b_arr(t, vec![lv.e[0], lv.e[1]]),
            Sh::ArrStr => {
                let s = b_str(t, vec![lv.s[0]]);
                b_arr(t, vec![s])
            }
            Sh::StructArr => {
                let a = b_arr(t, vec![lv.e[0]]);
                b_struct(t, vec![a, lv.e[1]])
            }
            Sh::NestStruct => {
                let s = b_struct(t, vec![lv.e[0], lv.e[1]]);
                let x = b_str(t, vec![lv.s[0]]);
                b_struct(t, vec![s, x])
            }
            Sh::NestArr => {
                let a0 = b_arr(t, vec![lv.e[0]]);
                let a1 = b_arr(t, vec![lv.e[1]]);
                b_arr(t, vec![a0, a1])
            }
            Sh::MixIntStr => {
                let x = b_str(t, vec![lv.s[0]]);
                b_struct(t, vec![lv.e[0], x])
            }
            Sh::MixJob => {
                let a = b_arr(t, vec![lv.e[1]]);
                let x = b_str(t, vec![lv.s[0]]);
                b_struct(t, vec![lv.e[0], a, x])
            }
            Sh::MixTuple => {
                let x = b_str(t, vec![lv.s[0]]);
                let inner = b_struct(t, vec![x]);
                b_struct(t, vec![lv.e[0], inner])
            }
            Sh::StructVar => {
                let v = Value::from(EnumObject::new(lv.tag, lv.e[0], t));
                b_struct(t, vec![v, lv.e[1]])
            }
            Sh::StructVarArr => {
                let a = b_arr(t, vec![lv.e[0]]);
                let v = Value::from(EnumObject::new(lv.tag, a, t));
                b_struct(t, vec![v, lv.e[1]])
            }
            Sh::ArrStruct => {
                let st = b_struct(t, vec![lv.e[0], lv.e[1]]);
                b_arr(t, vec![st])
            }
            Sh::ArrVar => {
                let v = Value::from(EnumObject::new(lv.tag, lv.e[0], t));
                b_arr(t, vec![v])
            }
            Sh::VarStr => {
                let x = b_str(t, vec![lv.s[0]]);
                Value::from(EnumObject::new(lv.tag, x, t))
            }
            Sh::VarArr => {
                let a = b_arr(t, vec![lv.e[0]]);
                Value::from(EnumObject::new(lv.tag, a, t))
            }
            Sh::VarVar => {
                let v = Value::from(EnumObject::new(lv.tag, lv.e[0], t));
                Value::from(EnumObject::new(lv.tag, v, t))
            }
        }
    }

    // ---------------------------------------------------------------- the model (raw reads, no VM helper)
    fn in_heap(h: &[Hp], p: u64) -> bool {
        let mut r = false;
        let mut i = 0;
        while i < h.len() {
            if h[i] as u64 == p {
                r = true;
            }
            i += 1;
        }
        r
    }
    fn disjoint(a: &[Hp], b: &[Hp]) -> bool {
        let mut ok = true;
        let mut i = 0;
        while i < a.len() {
            if in_heap(b, a[i] as u64) {
                ok = false;
            }
            i += 1;
        }
        ok
    }
    fn same_list(a: &[Hp], b: &[Hp]) -> bool {
        if a.len() != b.len() {
            return false;
        }
        let mut ok = true;
        let mut i = 0;
        while i < a.len() {
            if a[i] != b[i] {
                ok = false;
            }
            i += 1;
        }
        ok
    }
    /// sum of the real nbytes() of the objects of a heap list
    fn heap_bytes(h: &[Hp]) -> usize {
        let mut n = 0;
        let mut i = 0;
        while i < h.len() {
            n += unsafe { &*h[i] }.nbytes();
            i += 1;
        }
        n
    }
    fn owned(x: Value, h: &[Hp]) {
        assert!(in_heap(h, x.0), "object is owned by (is an element of the heap list of) the expected thread");
    }
    fn m_str(x: Value, h: &[Hp], want: &[u8]) {
        assert!(x.1 == ValueTag::String, "tag String");
        owned(x, h);
        let so = unsafe { &*(x.0 as *const StringObject) };
        assert!(matches!(so.header.kind, ObjectKind::String), "object kind String");
        let got = so.str.as_bytes();
        assert!(got.len() == want.len(), "string length equal");
        let mut i = 0;
        while i < want.len() {
            assert!(got[i] == want[i], "string content equal");
            i += 1;
        }
    }
    fn m_fields<'a>(x: Value, h: &[Hp], n: usize) -> &'a [Value] {
        assert!(x.1 == ValueTag::Struct, "tag Struct");
        owned(x, h);
        let so = unsafe { &*(x.0 as *const StructObject) };
        assert!(matches!(so.header.kind, ObjectKind::Struct), "object kind Struct");
        assert!(so.len == n, "same number of fields");
        so.get_fields()
    }
    fn m_elems<'a>(x: Value, h: &[Hp], n: usize) -> &'a [Value] {
        assert!(x.1 == ValueTag::Array, "tag Array");
        owned(x, h);
        let ao = unsafe { &*(x.0 as *const ArrayObject) };
        assert!(matches!(ao.header.kind, ObjectKind::Array), "object kind Array");
        assert!(ao.data.len() == n, "same array length");
        &ao.data[..]
    }
    fn m_variant(x: Value, h: &[Hp], tag: u16) -> Value {
        assert!(x.1 == ValueTag::Variant, "tag Variant");
        owned(x, h);
        let eo = unsafe { &*(x.0 as *const EnumObject) };
        assert!(matches!(eo.header.kind, ObjectKind::Enum), "object kind Enum");
        assert!(eo.tag == tag, "same variant tag");
        eo.val
    }
    fn m_struct2(x: Value, h: &[Hp], lv: &Lv) {
        let f = m_fields(x, h, 2);
        assert!(f[0] == lv.e[0] && f[1] == lv.e[1], "scalar fields equal");
    }
    /// x has shape sh with leaves lv, and every object reachable from x is an element of h
    fn expect(sh: Sh, x: Value, lv: &Lv, h: &[Hp]) {
        match sh {
            Sh::Scalar => assert!(x == lv.e[0], "scalar: same tag and same bits"),
            Sh::Str0 => m_str(x, h, &[]),
            Sh::Str1 => m_str(x, h, &[lv.s[0]]),
            Sh::Str2 => m_str(x, h, &[lv.s[0], lv.s[1]]),
            Sh::Struct2 => m_struct2(x, h, lv),
            Sh::StructStr => {
                let f = m_fields(x, h, 1);
                m_str(f[0], h, &[lv.s[0]]);
            }
            Sh::VarScalar => {
                let p = m_variant(x, h, lv.tag);
                assert!(p == lv.e[0], "variant payload equal");
            }
            Sh::VarStruct => {
                let p = m_variant(x, h, lv.tag);
                m_struct2(p, h, lv);
            }
            Sh::Arr(n) => {
                let d = m_elems(x, h, n);
                let mut i = 0;
                while i < n {
                    assert!(d[i] == lv.e[i], "array element equal");
                    i += 1;
                }
            }
            Sh::ArrStr => {
                let d = m_elems(x, h, 1);
                m_str(d[0], h, &[lv.s[0]]);
            }
            Sh::StructArr => {
                let f = m_fields(x, h, 2);
                let d = m_elems(f[0], h, 1);
                assert!(d[0] == lv.e[0] && f[1] == lv.e[1], "leaves equal");
            }
            Sh::NestStruct => {
                let f = m_fields(x, h, 2);
                m_struct2(f[0], h, lv);
                m_str(f[1], h, &[lv.s[0]]);
            }
            Sh::NestArr => {
                let d = m_elems(x, h, 2);
                let d0 = m_elems(d[0], h, 1);
                let d1 = m_elems(d[1], h, 1);
                assert!(d0[0] == lv.e[0] && d1[0] == lv.e[1], "leaves equal");
            }
            Sh::MixIntStr => {
                let f = m_fields(x, h, 2);
                assert!(f[0] == lv.e[0], "scalar field equal");
                m_str(f[1], h, &[lv.s[0]]);
            }
            Sh::MixJob => {
                let f = m_fields(x, h, 3);
                assert!(f[0] == lv.e[0], "scalar field equal");
                let d = m_elems(f[1], h, 1);
                assert!(d[0] == lv.e[1], "array element equal");
                m_str(f[2], h, &[lv.s[0]]);
            }
            Sh::MixTuple => {
                let f = m_fields(x, h, 2);
                assert!(f[0] == lv.e[0], "scalar field equal");
                let g = m_fields(f[1], h, 1);
                m_str(g[0], h, &[lv.s[0]]);
            }
            Sh::StructVar => {
                let f = m_fields(x, h, 2);
                let p = m_variant(f[0], h, lv.tag);
                assert!(p == lv.e[0] && f[1] == lv.e[1], "leaves equal");
            }
            Sh::StructVarArr => {
                let f = m_fields(x, h, 2);
                let p = m_variant(f[0], h, lv.tag);
                let d = m_elems(p, h, 1);
                assert!(d[0] == lv.e[0] && f[1] == lv.e[1], "leaves equal");
            }
            Sh::ArrStruct => {
                let d = m_elems(x, h, 1);
                m_struct2(d[0], h, lv);
            }
            Sh::ArrVar => {
                let d = m_elems(x, h, 1);
                let p = m_variant(d[0], h, lv.tag);
                assert!(p == lv.e[0], "variant payload equal");
            }
            Sh::VarStr => {
                let p = m_variant(x, h, lv.tag);
                m_str(p, h, &[lv.s[0]]);
            }
            Sh::VarArr => {
                let p = m_variant(x, h, lv.tag);
                let d = m_elems(p, h, 1);
                assert!(d[0] == lv.e[0], "array element equal");
            }
            Sh::VarVar => {
                let p = m_variant(x, h, lv.tag);
                let q = m_variant(p, h, lv.tag);
                assert!(q == lv.e[0], "inner payload equal");
            }
        }
    }

    // ---------------------------------------------------------------- mutation through the REAL arms
    fn set_field(t: &mut VmGreenThread, s: Value, idx: u16, nv: Value) {
        let n0 = t.value_stack.len();
        t.push(nv);
        t.push(s);
        assert!(t.arm_SetField(idx, TOP));
        assert!(t.value_stack.len() == n0);
    }
    fn set_index(t: &mut VmGreenThread, a: Value, idx: i64, nv: Value) {
        t.push(a);
        t.push(idx);
        t.push(nv);
        assert!(t.arm_SetIndex(TOP, TOP));
    }
    fn array_push(t: &mut VmGreenThread, a: Value, nv: Value) {
        t.push(a);
        t.push(nv);
        assert!(t.arm_ArrayPush(TOP, TOP));
    }
    /// mutate the value rooted at x (owned by t) in every way its shape allows; returns false for immutable shapes.
    /// Each mutation is read back, so the harness cannot pass because "nothing happened".
    fn poke(sh: Sh, x: Value, t: &mut VmGreenThread, lv: &Lv, nv: Value) -> bool {
        let h: Vec<Hp> = t.heap_list.clone();
        match sh {
            Sh::Scalar | Sh::Str0 | Sh::Str1 | Sh::Str2 | Sh::StructStr | Sh::VarScalar | Sh::VarStr | Sh::VarVar => false,
            Sh::StructVar => {
                set_field(t, x, 1, nv);
                assert!(m_fields(x, &h, 2)[1] == nv);
                true
            }
            Sh::StructVarArr => {
                let v = m_fields(x, &h, 2)[0];
                let a = m_variant(v, &h, lv.tag);
                array_push(t, a, nv);
                set_index(t, a, 0, nv);
                assert!(m_elems(a, &h, 2)[0] == nv && m_elems(a, &h, 2)[1] == nv);
                true
            }
            Sh::ArrStruct => {
                let st = m_elems(x, &h, 1)[0];
                set_field(t, st, 0, nv);
                assert!(m_fields(st, &h, 2)[0] == nv);
                true
            }
            Sh::ArrVar => {
                array_push(t, x, nv);
                assert!(m_elems(x, &h, 2)[1] == nv);
                true
            }
            Sh::VarArr => {
                let a = m_variant(x, &h, lv.tag);
                array_push(t, a, nv);
                set_index(t, a, 0, nv);
                assert!(m_elems(a, &h, 2)[0] == nv && m_elems(a, &h, 2)[1] == nv);
                true
            }
            Sh::Struct2 => {
                set_field(t, x, 0, nv);
                assert!(m_fields(x, &h, 2)[0] == nv);
                true
            }
            Sh::VarStruct => {
                let p = m_variant(x, &h, lv.tag);
                set_field(t, p, 1, nv);
                assert!(m_fields(p, &h, 2)[1] == nv);
                true
            }
            Sh::Arr(n) => {
                array_push(t, x, nv);
                if n > 0 {
                    set_index(t, x, 0, nv);
                    assert!(m_elems(x, &h, n + 1)[0] == nv);
                }
                assert!(m_elems(x, &h, n + 1)[n] == nv);
                true
            }
            Sh::ArrStr => {
                array_push(t, x, nv);
                assert!(m_elems(x, &h, 2)[1] == nv);
                true
            }
            Sh::StructArr => {
                let a = m_fields(x, &h, 2)[0];
                array_push(t, a, nv);
                set_field(t, x, 1, nv);
                assert!(m_elems(a, &h, 2)[1] == nv && m_fields(x, &h, 2)[1] == nv);
                true
            }
            Sh::NestStruct => {
                let s = m_fields(x, &h, 2)[0];
                set_field(t, s, 0, nv);
                assert!(m_fields(s, &h, 2)[0] == nv);
                true
            }
            Sh::NestArr => {
                let a1 = m_elems(x, &h, 2)[1];
                set_index(t, a1, 0, nv);
                assert!(m_elems(a1, &h, 1)[0] == nv);
                true
            }
            Sh::MixIntStr => {
                set_field(t, x, 0, nv);
                assert!(m_fields(x, &h, 2)[0] == nv);
                true
            }
            Sh::MixJob => {
                let a = m_fields(x, &h, 3)[1];
                array_push(t, a, nv);
                set_index(t, a, 0, nv);
                assert!(m_elems(a, &h, 2)[0] == nv && m_elems(a, &h, 2)[1] == nv);
                true
            }
            Sh::MixTuple => {
                let inner = m_fields(x, &h, 2)[1];
                set_field(t, inner, 0, nv);
                assert!(m_fields(inner, &h, 1)[0] == nv);
                true
            }
        }
    }

    // ---------------------------------------------------------------- threads
    /// two threads of one runtime (same shared constants, same new-thread queue); the Receiver is kept
    fn mk_pair() -> (VmGreenThread, VmGreenThread, Receiver<Box<VmGreenThread>>) {
        let shared = mk_shared(vec![], vec![]);
        let (tx, rx) = mpsc::channel();
        let a = VmGreenThread::new(shared.clone(), tx.clone());
        let b = VmGreenThread::new(shared, tx);
        (a, b, rx)
    }
    fn qlen(ch: Value) -> usize {
        let co = unsafe { &*(ch.0 as *const ChannelObject) };
        co.data.lock().unwrap().len()
    }
    fn m_chan<'a>(x: Value, h: &[Hp]) -> &'a ChannelObject {
        assert!(x.1 == ValueTag::Channel, "tag Channel");
        owned(x, h);
        let co = unsafe { &*(x.0 as *const ChannelObject) };
        assert!(matches!(co.header.kind, ObjectKind::Channel), "object kind Channel");
        co
    }
    fn quiet(t: &VmGreenThread) -> bool {
        err_kind(t) == 0 && !t.done && t.pending_host_func.is_none() && t.pending_ffi_call.is_none()
    }

    // ================================================================ C08.deep_copy.<shape>.post
    fn copy_post(sh: Sh, tags: (ValueTag, ValueTag)) {
        let (mut a, mut b, _rx) = mk_pair();
        let lv = any_lv(tags);
        let v = build(sh, &mut a, &lv);
        a.push(v);
        let a_heap0: Vec<Hp> = a.heap_list.clone();
        let a_size0 = a.heap_size;
        assert!(a_heap0.len() == nodes(sh));
        expect(sh, v, &lv, &a.heap_list);

        let w = v.deep_copy(&mut b);

        // the source thread is untouched
        assert!(same_list(&a.heap_list, &a_heap0) && a.heap_size == a_size0, "source heap list and accounting unchanged");
        assert!(a.value_stack.len() == 1 && a.value_stack[0] == v, "source stack unchanged");
        expect(sh, v, &lv, &a.heap_list);
        // the copy: same shape, same leaves, every object owned by the destination
        expect(sh, w, &lv, &b.heap_list);
        assert!(b.heap_list.len() == nodes(sh), "exactly one new object per object of the original");
        assert!(disjoint(&b.heap_list, &a.heap_list), "no object belongs to both heaps");
        assert!(b.heap_size == heap_bytes(&b.heap_list), "destination heap_size accounts for exactly the new objects");
        assert!(b.value_stack.is_empty() && quiet(&b) && quiet(&a));
        if sh == Sh::Scalar {
            assert!(w == v && b.heap_list.is_empty() && b.heap_size == 0, "scalars: returned unchanged, no allocation");
        }
        // a mutation through one is invisible through the other (real SetField / SetIndex / ArrayPush arms)
        let nv = sc(ValueTag::Int);
        kani::assume(nv != lv.e[0] && nv != lv.e[1]);
        let side: bool = kani::any();
        if side {
            if poke(sh, w, &mut b, &lv, nv) {
                expect(sh, v, &lv, &a.heap_list);
                kani::cover!(true, "copy mutated, original checked");
            }
        } else {
            if poke(sh, v, &mut a, &lv, nv) {
                expect(sh, w, &lv, &b.heap_list);
                kani::cover!(true, "original mutated, copy checked");
            }
        }
        kani::cover!(true, "reachable");
        std::mem::forget(a);
        std::mem::forget(b);
    }

    /// channels are the documented exception: a NEW ChannelObject in B that shares the SAME queue
    #[kani::proof]
    #[kani::unwind(6)]
    fn copy_chan() {
        let (mut a, mut b, _rx) = mk_pair();
        let v = Value::from(ChannelObject::new(&mut a));
        let a_heap0: Vec<Hp> = a.heap_list.clone();
        let w = v.deep_copy(&mut b);
        let cv = m_chan(v, &a.heap_list);
        let cw = m_chan(w, &b.heap_list);
        assert!(same_list(&a.heap_list, &a_heap0) && a.heap_list.len() == 1 && b.heap_list.len() == 1);
        assert!(disjoint(&b.heap_list, &a.heap_list) && w.0 != v.0, "a new channel object, owned by the destination");
        assert!(Arc::ptr_eq(&cv.data, &cw.data), "the copy refers to the same queue");
        assert!(b.heap_size == heap_bytes(&b.heap_list) && b.heap_size == size_of::<ChannelObject>());
        // "keeps referring to the same channel": a write through the original is read through the copy
        let x = sc(ValueTag::Int);
        a.push(v);
        a.push(x);
        assert!(a.arm_ChannelWrite());
        assert!(qlen(w) == 1);
        b.push(w);
        assert!(b.arm_ChannelRead());
        assert!(b.value_stack.len() == 1 && b.value_stack[0] == x && qlen(v) == 0);
        kani::cover!(true, "reachable");
        std::mem::forget(a);
        std::mem::forget(b);
    }

    // ================================================================ C08.spawn.captures_copied
    /// SpawnTask(n, target) with n captures of concrete shapes s[0..n] (n <= 2) above one unrelated stack slot
    fn spawn_case(n: usize, s: [Sh; 2]) {
        let (mut a, b, rx) = mk_pair();
        std::mem::forget(b);
        let bottom = sc(ValueTag::Int);
        a.push(bottom);
        let lv = [any_lv(IF), any_lv(BA)];
        let mut v = [bottom, bottom];
        let mut want_nodes = 0;
        let mut i = 0;
        while i < n {
            v[i] = build(s[i], &mut a, &lv[i]);
            want_nodes += nodes(s[i]);
            i += 1;
        }
        i = 0;
        while i < n {
            a.push(v[i]);
            i += 1;
        }
        let a_heap0: Vec<Hp> = a.heap_list.clone();
        let a_size0 = a.heap_size;
        let a_pc0: u32 = kani::any();
        a.pc = ProgramCounter(a_pc0);
        let target: u32 = kani::any();

        let cont = a.arm_SpawnTask(n as u16, ProgramCounter(target));

        assert!(cont && quiet(&a), "the spawner continues");
        assert!(a.value_stack.len() == 1 && a.value_stack[0] == bottom, "pops exactly n values");
        assert!(a.pc.0 == a_pc0, "spawner pc untouched");
        assert!(same_list(&a.heap_list, &a_heap0) && a.heap_size == a_size0, "spawner heap unchanged");
        let nt = match rx.try_recv() {
            Ok(t) => t,
            Err(_) => panic!("exactly one new thread is handed to the runtime"),
        };
        assert!(rx.try_recv().is_err(), "exactly one new thread is handed to the runtime");
        assert!(nt.pc.0 == target, "the task starts at the target");
        assert!(nt.value_stack.len() == n, "the task's stack holds exactly the n captures");
        assert!(nt.stack_base == 0 && nt.call_stack.is_empty() && quiet(&nt) && !nt.is_main);
        i = 0;
        while i < n {
            expect(s[i], nt.value_stack[i], &lv[i], &nt.heap_list); // same order, copies owned by the task
            expect(s[i], v[i], &lv[i], &a.heap_list); // originals untouched
            i += 1;
        }
        assert!(nt.heap_list.len() == want_nodes && disjoint(&nt.heap_list, &a.heap_list), "the task has its own heap");
        assert!(nt.heap_size == heap_bytes(&nt.heap_list));
        // a mutation made by the spawner after the spawn (real arms) is invisible to the task
        if n > 0 {
            let nv = sc(ValueTag::Int);
            kani::assume(nv != lv[0].e[0] && nv != lv[0].e[1]);
            if poke(s[0], v[0], &mut a, &lv[0], nv) {
                expect(s[0], nt.value_stack[0], &lv[0], &nt.heap_list);
            }
        }
        kani::cover!(true, "reachable");
        std::mem::forget(a);
        std::mem::forget(nt);
    }

    /// a captured channel keeps referring to the same channel
    #[kani::proof]
    #[kani::unwind(6)]
    fn spawn_chan() {
        let (mut a, b, rx) = mk_pair();
        std::mem::forget(b);
        assert!(a.arm_ConstructChannel());
        let ch = a.top();
        let e = sc(ValueTag::Int);
        a.push(e);
        let target: u32 = kani::any();
        assert!(a.arm_SpawnTask(1, ProgramCounter(target)));
        assert!(a.value_stack.len() == 1 && a.value_stack[0] == ch);
        let nt = match rx.try_recv() {
            Ok(t) => t,
            Err(_) => panic!("no thread"),
        };
        assert!(nt.value_stack.len() == 1 && nt.value_stack[0] == e);
        std::mem::forget(nt);
        // now capture the channel itself (and a scalar, to check the order)
        a.push(e);
        assert!(a.arm_SpawnTask(2, ProgramCounter(target)));
        assert!(a.value_stack.is_empty());
        let nt = match rx.try_recv() {
            Ok(t) => t,
            Err(_) => panic!("no thread"),
        };
        assert!(nt.value_stack.len() == 2 && nt.value_stack[1] == e);
        let c1 = m_chan(ch, &a.heap_list);
        let c2 = m_chan(nt.value_stack[0], &nt.heap_list);
        assert!(Arc::ptr_eq(&c1.data, &c2.data) && nt.value_stack[0].0 != ch.0);
        assert!(disjoint(&nt.heap_list, &a.heap_list) && nt.heap_list.len() == 1 && a.heap_list.len() == 1);
        kani::cover!(true, "reachable");
        std::mem::forget(a);
        std::mem::forget(nt);
    }

    // ================================================================ C09.chan.write_read.fifo
    /// one thread: ConstructChannel; ChannelWrite(v1); ChannelWrite(v2); ChannelRead; ChannelRead
    fn fifo_one(s1: Sh, s2: Sh) {
        let (mut t, b, _rx) = mk_pair();
        std::mem::forget(b);
        let bottom = sc(ValueTag::Int);
        t.push(bottom);
        assert!(t.arm_ConstructChannel());
        assert!(t.value_stack.len() == 2);
        let ch = t.top();
        let _ = m_chan(ch, &t.heap_list);
        assert!(qlen(ch) == 0, "a new channel is empty");
        let (l1, l2) = (any_lv(IF), any_lv(BA));
        let v1 = build(s1, &mut t, &l1);
        let v2 = build(s2, &mut t, &l2);
        t.push(ch);
        t.push(v1);
        assert!(t.arm_ChannelWrite() && quiet(&t));
        assert!(t.value_stack.len() == 2 && qlen(ch) == 1, "write consumes channel and value, appends one element");
        t.push(ch);
        t.push(v2);
        assert!(t.arm_ChannelWrite() && quiet(&t));
        assert!(t.value_stack.len() == 2 && qlen(ch) == 2);
        let h0 = t.heap_list.len();
        assert!(h0 == 1 + nodes(s1) + nodes(s2));

        t.push(ch);
        assert!(t.arm_ChannelRead() && quiet(&t));
        assert!(t.value_stack.len() == 3 && qlen(ch) == 1, "read replaces the channel by one value and removes exactly one element");
        let r1 = t.top();
        let h1 = t.heap_list.len();
        assert!(h1 == h0 + nodes(s1));
        expect(s1, r1, &l1, &t.heap_list[h0..h1]); // equal to the FIRST value written; made only of objects allocated by this read
        expect(s1, v1, &l1, &t.heap_list[..h0]);
        t.pop();

        t.push(ch);
        assert!(t.arm_ChannelRead() && quiet(&t));
        assert!(t.value_stack.len() == 3 && qlen(ch) == 0);
        let r2 = t.top();
        let h2 = t.heap_list.len();
        assert!(h2 == h1 + nodes(s2));
        expect(s2, r2, &l2, &t.heap_list[h1..h2]); // then the SECOND
        expect(s2, v2, &l2, &t.heap_list[..h0]);
        assert!(t.value_stack[0] == bottom && t.value_stack[1] == ch);
        kani::cover!(true, "reachable");
        std::mem::forget(t);
    }

    /// writer thread A, reader thread B holding a `copy` of the channel (what SpawnTask gives a task)
    fn fifo_two(s1: Sh, s2: Sh) {
        let (mut a, mut b, _rx) = mk_pair();
        assert!(a.arm_ConstructChannel());
        let cha = a.top();
        let chb = cha.deep_copy(&mut b);
        let (l1, l2) = (any_lv(IF), any_lv(BA));
        let v1 = build(s1, &mut a, &l1);
        let v2 = build(s2, &mut a, &l2);
        a.push(cha);
        a.push(v1);
        assert!(a.arm_ChannelWrite());
        a.push(cha);
        a.push(v2);
        assert!(a.arm_ChannelWrite());
        assert!(qlen(chb) == 2 && b.heap_list.len() == 1 && quiet(&a) && quiet(&b));
        let a_heap0: Vec<Hp> = a.heap_list.clone();

        b.push(chb);
        assert!(b.arm_ChannelRead() && quiet(&b));
        assert!(b.value_stack.len() == 1 && qlen(cha) == 1);
        let r1 = b.top();
        expect(s1, r1, &l1, &b.heap_list);
        b.pop();
        b.push(chb);
        assert!(b.arm_ChannelRead() && quiet(&b));
        assert!(b.value_stack.len() == 1 && qlen(cha) == 0);
        let r2 = b.top();
        expect(s2, r2, &l2, &b.heap_list);
        assert!(b.heap_list.len() == 1 + nodes(s1) + nodes(s2) && disjoint(&b.heap_list, &a.heap_list), "received values are the reader's own objects");
        assert!(b.heap_size == heap_bytes(&b.heap_list));
        // the writer is not disturbed by the reads
        assert!(same_list(&a.heap_list, &a_heap0) && a.value_stack.len() == 1 && quiet(&a));
        expect(s1, v1, &l1, &a.heap_list);
        expect(s2, v2, &l2, &a.heap_list);
        // a mutation of the received value (real arms, on the reader) is invisible to the writer
        let nv = sc(ValueTag::Int);
        kani::assume(nv != l1.e[0] && nv != l1.e[1]);
        if poke(s1, r1, &mut b, &l1, nv) {
            expect(s1, v1, &l1, &a.heap_list);
        }
        kani::cover!(true, "reachable");
        std::mem::forget(a);
        std::mem::forget(b);
    }

    /// FOUR scalar values queued before any read, then read interleaved with a fifth write: order of arrival
    /// (queue disciplines that coincide with FIFO for <= 2 elements, e.g. swap_remove(0), differ from 3 on)
    fn fifo_many() {
        let (mut a, mut b, _rx) = mk_pair();
        assert!(a.arm_ConstructChannel());
        let cha = a.top();
        let chb = cha.deep_copy(&mut b);
        let v: [Value; 5] = [sc(ValueTag::Int), sc(ValueTag::Int), sc(ValueTag::Int), sc(ValueTag::Int), sc(ValueTag::Int)];
        let mut i = 0;
        while i < 4 {
            a.push(cha);
            a.push(v[i]);
            assert!(a.arm_ChannelWrite());
            i += 1;
        }
        assert!(qlen(chb) == 4 && quiet(&a) && quiet(&b));
        let mut k = 0;
        while k < 2 {
            b.push(chb);
            assert!(b.arm_ChannelRead() && quiet(&b));
            assert!(b.top() == v[k], "values are read in the order they were written");
            b.pop();
            k += 1;
        }
        a.push(cha);
        a.push(v[4]);
        assert!(a.arm_ChannelWrite());
        while k < 5 {
            b.push(chb);
            assert!(b.arm_ChannelRead() && quiet(&b));
            assert!(b.top() == v[k], "values are read in the order they were written (after an interleaved write)");
            b.pop();
            k += 1;
        }
        assert!(qlen(cha) == 0, "each value is delivered exactly once");
        kani::cover!(true, "reachable");
        std::mem::forget(a);
        std::mem::forget(b);
    }

    // ================================================================ C09.chan.read_empty.suspends
    #[kani::proof]
    #[kani::unwind(6)]
    fn read_empty_suspends() {
        let (mut a, mut b, rx) = mk_pair();
        assert!(a.arm_ConstructChannel());
        let cha = a.top();
        let a_pc: u32 = kani::any();
        a.pc = ProgramCounter(a_pc);
        let bottom = sc(ValueTag::Int);
        b.push(bottom);
        let chb = cha.deep_copy(&mut b);
        b.push(chb);
        // step() has already incremented pc when the arm runs (pc increment itself: not verified here)
        let p: u32 = kani::any();
        kani::assume(p >= 1);
        b.pc = ProgramCounter(p);
        let b_heap0: Vec<Hp> = b.heap_list.clone();
        let (b_size0, b_base0) = (b.heap_size, b.stack_base);

        let cont = b.arm_ChannelRead();

        assert!(cont && quiet(&b), "no error, not done: the reader simply retries");
        assert!(b.pc.0 == p - 1, "pc rewound by exactly one: the same ChannelRead runs again");
        assert!(b.value_stack.len() == 2 && b.value_stack[0] == bottom && b.value_stack[1] == chb, "the channel is back on the stack");
        assert!(same_list(&b.heap_list, &b_heap0) && b.heap_size == b_size0 && b.stack_base == b_base0 && b.call_stack.is_empty());
        assert!(qlen(chb) == 0);
        // only the reader is affected
        assert!(a.pc.0 == a_pc && a.value_stack.len() == 1 && a.value_stack[0] == cha && quiet(&a) && a.heap_list.len() == 1);
        assert!(rx.try_recv().is_err());
        // ... and once a value is there the retried read succeeds
        let x = sc(ValueTag::Int);
        a.push(cha);
        a.push(x);
        assert!(a.arm_ChannelWrite());
        b.pc = ProgramCounter(p);
        assert!(b.arm_ChannelRead());
        assert!(b.pc.0 == p && b.value_stack.len() == 2 && b.value_stack[1] == x);
        kani::cover!(true, "reachable");
        std::mem::forget(a);
        std::mem::forget(b);
    }

    // ================================================================ C09.chan.write.ownership
    /// A creates the channel, B holds a copy, A writes a freshly built heap value and FINISHES
    /// (the runtime drops a finished non-main thread: real `impl Drop for VmGreenThread`), then B reads.
    fn ownership_drop(sh: Sh) {
        let (mut a, mut b, _rx) = mk_pair();
        assert!(a.arm_ConstructChannel());
        let cha = a.top();
        let chb = cha.deep_copy(&mut b);
        let lv = any_lv(AI);
        let v = build(sh, &mut a, &lv);
        a.push(cha);
        a.push(v);
        assert!(a.arm_ChannelWrite());
        assert!(qlen(chb) == 1);
        drop(a); // Runtime::finish_thread_turn drops `thread` when !is_main && done
        b.push(chb);
        assert!(b.arm_ChannelRead() && quiet(&b));
        assert!(b.value_stack.len() == 1 && qlen(chb) == 0);
        let r = b.top();
        expect(sh, r, &lv, &b.heap_list); // the received value is valid and equal to what was written
        kani::cover!(true, "reachable");
        std::mem::forget(b);
    }

    // ================================================================ C09.chan.gc.foreign_heap
    /// B's collector, tracing through its channel, must not write into objects that belong to A's heap.
    #[kani::proof]
    #[kani::unwind(6)]
    fn gc_foreign_mark() {
        let (mut a, mut b, _rx) = mk_pair();
        assert!(a.arm_ConstructChannel());
        let cha = a.top();
        let chb = cha.deep_copy(&mut b);
        b.push(chb);
        let lv = any_lv(AI);
        let v = build(Sh::Struct2, &mut a, &lv);
        a.push(cha);
        a.push(v);
        assert!(a.arm_ChannelWrite());
        let hdr = unsafe { &*(v.0 as *const ObjectHeader) };
        let visited0 = hdr.visited;
        assert!(in_heap(&a.heap_list, v.0) && !in_heap(&b.heap_list, v.0));
        b.start_mark_phase();
        let mut batch: usize = 1;
        b.process_gray(&mut batch); // one increment: traces the channel object only
        let mut i = 0;
        let mut foreign_gray = false;
        while i < b.gray_stack.len() {
            if in_heap(&a.heap_list, b.gray_stack[i] as u64) {
                foreign_gray = true;
            }
            i += 1;
        }
        assert!(!foreign_gray, "B's gray stack holds only B's objects");
        assert!(hdr.visited == visited0, "B's collector does not write the mark bit of an object of A's heap");
        kani::cover!(true, "reachable");
        std::mem::forget(a);
        std::mem::forget(b);
    }

    /// interleaving without any thread finishing: B marks incrementally through the channel, A (still
    /// holding the channel) runs a complete collection, B continues marking and then reads.
    #[kani::proof]
    #[kani::unwind(6)]
    fn gc_interleaved() {
        let (mut a, mut b, _rx) = mk_pair();
        assert!(a.arm_ConstructChannel());
        let cha = a.top();
        let chb = cha.deep_copy(&mut b);
        b.push(chb);
        let lv = any_lv(AI);
        let v = build(Sh::StructStr, &mut a, &lv);
        a.push(cha);
        a.push(v);
        assert!(a.arm_ChannelWrite());
        assert!(a.value_stack.len() == 1); // A keeps its channel: its own GC is supposed to keep queued values alive
        // B: start a collection, do one increment
        b.start_mark_phase();
        let mut batch: usize = 1;
        b.process_gray(&mut batch);
        // A: one complete collection
        a.start_mark_phase();
        let mut big: usize = 1 << 20;
        a.process_gray(&mut big);
        a.sweep(1 << 20);
        assert!(a.gc_state == GcState::Idle);
        // B: finish marking, sweep, read
        let mut big: usize = 1 << 20;
        b.process_gray(&mut big);
        b.sweep(1 << 20);
        assert!(b.arm_ChannelRead() && quiet(&b));
        let r = b.top();
        expect(Sh::StructStr, r, &lv, &b.heap_list);
        kani::cover!(true, "reachable");
        std::mem::forget(a);
        std::mem::forget(b);
    }

    // ---------------------------------------------------------------- instances (one per concrete shape)
    macro_rules! inst {
        ($name:ident, $body:expr) => {
            #[kani::proof]
            #[kani::unwind(6)]
            fn $name() {
                $body
            }
        };
    }
    inst!(copy_scalar_int, copy_post(Sh::Scalar, IF));
    inst!(copy_scalar_float, copy_post(Sh::Scalar, (ValueTag::Float, ValueTag::Int)));
    inst!(copy_scalar_bool, copy_post(Sh::Scalar, BA));
    inst!(copy_scalar_addr, copy_post(Sh::Scalar, AI));
    inst!(copy_str0, copy_post(Sh::Str0, IF));
    inst!(copy_str1, copy_post(Sh::Str1, IF));
    inst!(copy_str2, copy_post(Sh::Str2, IF));
    inst!(copy_struct2, copy_post(Sh::Struct2, IF));
    inst!(copy_closure, copy_post(Sh::Struct2, AI));
    inst!(copy_struct_str, copy_post(Sh::StructStr, IF));
    inst!(copy_var_scalar, copy_post(Sh::VarScalar, BA));
    inst!(copy_var_struct, copy_post(Sh::VarStruct, IF));
    inst!(copy_arr0, copy_post(Sh::Arr(0), IF));
    inst!(copy_arr1, copy_post(Sh::Arr(1), IF));
    inst!(copy_arr2, copy_post(Sh::Arr(2), BA));
    inst!(copy_arr_str, copy_post(Sh::ArrStr, IF));
    inst!(copy_struct_arr, copy_post(Sh::StructArr, IF));
    inst!(copy_nest_struct, copy_post(Sh::NestStruct, IF));
    inst!(copy_nest_arr, copy_post(Sh::NestArr, IF));
    inst!(copy_mix_int_str, copy_post(Sh::MixIntStr, IF));
    inst!(copy_mix_job, copy_post(Sh::MixJob, IF));
    inst!(copy_mix_tuple, copy_post(Sh::MixTuple, BA));
    inst!(copy_struct_var, copy_post(Sh::StructVar, IF));
    inst!(copy_struct_var_arr, copy_post(Sh::StructVarArr, IF));
    inst!(copy_arr_struct, copy_post(Sh::ArrStruct, IF));
    inst!(copy_arr_var, copy_post(Sh::ArrVar, BA));
    inst!(copy_var_str, copy_post(Sh::VarStr, IF));
    inst!(copy_var_arr, copy_post(Sh::VarArr, IF));
    inst!(copy_var_var, copy_post(Sh::VarVar, IF));

    inst!(spawn_0, spawn_case(0, [Sh::Scalar, Sh::Scalar]));
    inst!(spawn_scalar_struct_str, spawn_case(2, [Sh::Scalar, Sh::StructStr]));
    inst!(spawn_str_struct, spawn_case(2, [Sh::Str1, Sh::Struct2]));
    inst!(spawn_var_scalar, spawn_case(2, [Sh::VarStruct, Sh::Scalar]));
    inst!(spawn_mix_job, spawn_case(1, [Sh::MixJob, Sh::Scalar]));
    inst!(spawn_arr_str, spawn_case(2, [Sh::Arr(1), Sh::Str1]));

    inst!(fifo_one_scalar, fifo_one(Sh::Scalar, Sh::Scalar));
    inst!(fifo_one_str_struct, fifo_one(Sh::Str1, Sh::Struct2));
    inst!(fifo_two_scalar, fifo_two(Sh::Scalar, Sh::Scalar));
    inst!(fifo_many_scalars, fifo_many());
    inst!(fifo_two_str_struct, fifo_two(Sh::Str1, Sh::Struct2));
    inst!(fifo_two_mix_job, fifo_two(Sh::MixJob, Sh::Scalar));
    inst!(fifo_one_mix_int_str, fifo_one(Sh::MixIntStr, Sh::Scalar));
    inst!(fifo_two_arr, fifo_two(Sh::Arr(1), Sh::Scalar));

    inst!(ownership_drop_str, ownership_drop(Sh::Str1));
    inst!(ownership_drop_struct, ownership_drop(Sh::Struct2));
    inst!(ownership_drop_scalar, ownership_drop(Sh::Scalar));
}
