"""Replay family for C08 (tasks work on their own copies), run on the REAL CLI by u7_copy.replay.

One pair of programs per value shape the harnesses cover.  `<shape>.task_mutates`: the task mutates its
captured value in place (push / index or field assignment, through a match binding where needed), then
signals with an int over a channel; the spawner then prints ITS value.  `<shape>.spawner_mutates`: the
spawner mutates after spawning and then releases the task, which prints ITS value.  Each side must print
the unmodified value.  (A capture that appears only as a match scrutinee panics the compiler, so it is
bound to a local first: `let b = boxed`.)  PROGS = [(name, source, expected stdout)]."""
HEAD = "let done: channel<int> = channel()\nlet go: channel<int> = channel()\n"
def both(name, decl, task_mut, spawner_print, spawner_mut, task_print, exp_unmod):
    t2s = decl + HEAD + "task {\n" + task_mut + "    done.write(1)\n}\ndone.read()\n" + spawner_print
    s2t = decl + HEAD + "task {\n    go.read()\n" + task_print + "    done.write(1)\n}\n" + spawner_mut + "go.write(1)\ndone.read()\n"
    return [(name + ".task_mutates", t2s, exp_unmod), (name + ".spawner_mutates", s2t, exp_unmod)]

def ind(s):
    return "".join("    " + l + "\n" for l in s.strip("\n").split("\n"))

PROGS = []
PROGS += both("array", "let v = [1, 2, 3]\n",
              ind("v.push(99)\nv[0] = 77"), "println(v.len())\nprintln(v[0])\n",
              "v.push(99)\nv[0] = 77\n", ind("println(v.len())\nprintln(v[0])"), "3\n1\n")
PROGS += both("struct_array_field", "type Bag = {\n    items: array<int>\n    n: int\n}\nlet b = Bag([1, 2, 3], 5)\n",
              ind("b.items.push(99)\nb.items[0] = 77\nb.n = 6"), "println(b.items.len())\nprintln(b.items[0])\nprintln(b.n)\n",
              "b.items.push(99)\nb.items[0] = 77\nb.n = 6\n", ind("println(b.items.len())\nprintln(b.items[0])\nprintln(b.n)"), "3\n1\n5\n")
TUP_MUT = "let u = t\nmatch u {\n    (a, _) -> {\n        a.push(99)\n        a[0] = 77\n    }\n}\n"
TUP_PRINT = "let w = t\nmatch w {\n    (a, n) -> {\n        println(a.len())\n        println(a[0])\n        println(n)\n    }\n}\n"
PROGS += both("tuple", "let t = ([1, 2, 3], 5)\n", ind(TUP_MUT), TUP_PRINT, TUP_MUT, ind(TUP_PRINT), "3\n1\n5\n")
OPT_MUT = "let b = boxed\nmatch b {\n    .some(a) -> {\n        a.push(99)\n        a[0] = 77\n    }\n    .none -> {}\n}\n"
OPT_PRINT = "let c = boxed\nmatch c {\n    .some(a) -> {\n        println(a.len())\n        println(a[0])\n    }\n    .none -> println(\"none\")\n}\n"
PROGS += both("option_array", "let boxed = option.some([1, 2, 3])\n", ind(OPT_MUT), OPT_PRINT, OPT_MUT, ind(OPT_PRINT), "3\n1\n")
ENUM = "type Pt = {\n    x: int\n    y: int\n}\ntype Shape =\n    | Points(array<int>)\n    | Dot(Pt)\n"
EA_MUT = "let b = sh\nmatch b {\n    .Points(a) -> {\n        a.push(99)\n        a[0] = 77\n    }\n    .Dot(p) -> {\n        p.x = 77\n    }\n}\n"
EA_PRINT = "let c = sh\nmatch c {\n    .Points(a) -> {\n        println(a.len())\n        println(a[0])\n    }\n    .Dot(p) -> println(p.x)\n}\n"
PROGS += both("enum_array_payload", ENUM + "let sh = Shape.Points([10, 20])\n", ind(EA_MUT), EA_PRINT, EA_MUT, ind(EA_PRINT), "2\n10\n")
PROGS += both("enum_struct_payload", ENUM + "let sh = Shape.Dot(Pt(1, 2))\n", ind(EA_MUT), EA_PRINT, EA_MUT, ind(EA_PRINT), "1\n")
PROGS += both("nested_arrays", "let vv = [[1, 2], [3]]\n",
              ind("vv[1].push(99)\nvv[0][0] = 77"), "println(vv[1].len())\nprintln(vv[0][0])\n",
              "vv[1].push(99)\nvv[0][0] = 77\n", ind("println(vv[1].len())\nprintln(vv[0][0])"), "1\n1\n")
NEST = "type Inner = {\n    xs: array<int>\n}\ntype Outer = {\n    inner: Inner\n    opt: option<array<int>>\n}\nlet o = Outer(Inner([1, 2, 3]), option.some([4, 5]))\n"
NO_MUT = "o.inner.xs.push(99)\nlet q = o.opt\nmatch q {\n    .some(a) -> a.push(99)\n    .none -> {}\n}\n"
NO_PRINT = "println(o.inner.xs.len())\nlet r = o.opt\nmatch r {\n    .some(a) -> println(a.len())\n    .none -> println(\"none\")\n}\n"
PROGS += both("nested_struct_option", NEST, ind(NO_MUT), NO_PRINT, NO_MUT, ind(NO_PRINT), "3\n2\n")
PROGS += both("string", "var s = \"abc\"\n", ind("s = s .. \"!\""), "println(s)\n", "s = s .. \"!\"\n", ind("println(s)"), "abc\n")
CLO = "let xs = [1, 2, 3]\nlet f = () -> {\n    xs.push(99)\n    xs.len()\n}\n"
_c = both("closure_array", CLO, ind("let k = f()"), "println(xs.len())\n", "let k = f()\n", ind("println(f())"), None)
PROGS += [(_c[0][0], _c[0][1], "3\n"), (_c[1][0], _c[1][1], "4\n")]

# ---- arrays that are EMPTY when the task is spawned (top level and nested in a struct)
PROGS += both("empty_array", "let e: array<int> = []\n",
              ind("e.push(1)\ne.push(2)"), "println(e.len())\n",
              "e.push(1)\ne.push(2)\n", ind("println(e.len())"), "0\n")
PROGS += both("struct_empty_array_field", "type Bag = {\n    items: array<int>\n    n: int\n}\nlet b = Bag([], 5)\n",
              ind("b.items.push(99)"), "println(b.items.len())\nprintln(b.n)\n",
              "b.items.push(99)\n", ind("println(b.items.len())\nprintln(b.n)"), "0\n5\n")

# ---- records mixing scalar and heap fields in one struct (Job{id, items, label})
JOB = "type Job = {\n    id: int\n    items: array<int>\n    label: string\n}\nlet j = Job(7, [1, 2, 3], \"a\" .. \"b\")\n"
JOB_MUT = "j.items.push(99)\nj.items[0] = 77\nj.id = 8\n"
JOB_PRINT = "println(j.items.len())\nprintln(j.items[0])\nprintln(j.id)\nprintln(j.label)\n"
PROGS += both("mixed_struct", JOB, ind(JOB_MUT), JOB_PRINT, JOB_MUT, ind(JOB_PRINT), "3\n1\n7\nab\n")

# ---- the same through a CHANNEL.  The writer stays alive (blocked on a channel or waiting for `done`) until the end,
# so the known "finished writer" finding (C09.chan.write.ownership) is not involved.
CHAN_HEAD = "let c: channel<Job> = channel()\nlet got: channel<int> = channel()\n" + HEAD
R_MUT = "r.items.push(99)\nr.items[0] = 77\nr.id = 8\n"
R_PRINT = "println(r.items.len())\nprintln(r.items[0])\nprintln(r.id)\nprintln(r.label)\n"
CHAN_PROGS = [
    # writer = task (kept alive on go.read()); the reader (main) mutates what it received; the writer prints its own value
    ("chan_mixed_struct.reader_mutates",
     JOB + CHAN_HEAD + "task {\n    c.write(j)\n    go.read()\n" + ind(JOB_PRINT) + "    done.write(1)\n}\n"
     "let r = c.read()\n" + R_MUT + "go.write(1)\ndone.read()\n", "3\n1\n7\nab\n"),
    # writer = main (alive to the end); it mutates its value after the task has received it; the task prints what it received
    ("chan_mixed_struct.writer_mutates",
     JOB + CHAN_HEAD + "task {\n    let r = c.read()\n    got.write(1)\n    go.read()\n" + ind(R_PRINT) + "    done.write(1)\n}\n"
     "c.write(j)\ngot.read()\n" + JOB_MUT + "go.write(1)\ndone.read()\n", "3\n1\n7\nab\n"),
    # values are delivered once and in order (two mixed records)
    ("chan_mixed_struct.order",
     JOB + CHAN_HEAD + "task {\n    let r1 = c.read()\n    let r2 = c.read()\n    println(r1.id)\n    println(r2.id)\n    println(r2.items.len())\n"
     "    done.write(1)\n}\nc.write(j)\nc.write(Job(9, [4], \"z\"))\ndone.read()\n", "7\n9\n1\n"),
    # arrival order with five values queued (queue disciplines that coincide with FIFO up to two elements differ from three on)
    ("chan_order.five_queued",
     "let q: channel<int> = channel()\nq.write(0)\nq.write(1)\nq.write(2)\nq.write(3)\nprintln(q.read())\nprintln(q.read())\nq.write(4)\n"
     "println(q.read())\nprintln(q.read())\nprintln(q.read())\n", "0\n1\n2\n3\n4\n"),
    # a channel used as a local queue by ONE task (nobody else holds it): the value read is still an independent copy
    ("chan_local_queue.writer_mutates",
     "let q: channel<array<int>> = channel()\nlet a = [1, 2, 3]\nq.write(a)\nlet b = q.read()\na.push(4)\na[0] = 100\nprintln(b.len())\nprintln(b[0])\n"
     "b.push(5)\nb.push(6)\nprintln(a.len())\n", "3\n1\n4\n"),
    ("chan_local_queue.two_queued_nested",
     "let rows: channel<array<array<int>>> = channel()\nlet r1 = [[1], [2]]\nlet r2 = [[3], [4]]\nrows.write(r1)\nrows.write(r2)\n"
     "let g1 = rows.read()\nlet g2 = rows.read()\nr1[0].push(9)\nr2.pop()\nprintln(g1[0].len())\nprintln(g2.len())\nprintln(g1[1][0])\nprintln(g2[0][0])\n", "1\n2\n2\n3\n"),
]
