"""Bounded stand-in / replay shared by the optimizer units: every arithmetic and comparison operator
on the real CLI with the operands written (1) both as literals — constant folder —, (2) left variable,
right literal — immediate opcode —, (3) both variables — register opcode.  C05 requires the three to
agree (value or runtime-error kind); integers are also compared with exact arithmetic."""
import abra_cli

F_VALS = ["0.0", "-0.0", "1.0", "-1.5", "0.5", "2.0", "0.1", "0.30000000000000004", "9007199254740993.0"]
F_ZEROS = ["0.0", "0.00", "-0.0", "(2.0 - 2.0)", "(0.0 * 1.0)"]
I_VALS = ["0", "1", "-1", "7", "-7", "3", "2", "9223372036854775807", "4294967298", "63"]
OPS_F = ["+", "-", "*", "/", "==", "!=", "<", "<=", ">", ">="]
OPS_I = ["+", "-", "*", "/", "%", "^", "==", "!=", "<", "<=", ">", ">="]


def _cls(out, err, rc):
    t = out + err
    if "division by zero" in t:
        return "error:divzero"
    if "overflow" in t:
        return "error:overflow"
    if rc != 0:
        return "error:other:" + t.strip().split("\n")[0][:100]
    return out.strip()


def _three(a, op, b, ty):
    lit = "println(%s %s %s)\n" % (a, op, b)
    varlit = "let a = %s\nprintln(a %s %s)\n" % (a, op, b)
    varvar = "fn f(a: %s, b: %s) = a %s b\nprintln(f(%s, %s))\n" % (ty, ty, op, a, b)
    return [("literal op literal", lit), ("variable op literal", varlit), ("variable op variable", varvar)]


def differential(max_error_runs=60):
    """Returns (first disagreement dict or None, number of expression instances)."""
    # 1. non-error instances, batched in one program per form
    cases = []
    for a in F_VALS:
        for b in F_VALS:
            for op in OPS_F:
                if op == "/" and float(b.replace("(", "").split()[0]) == 0.0:
                    continue
                cases.append((a, op, b, "float"))
    for a in I_VALS:
        for b in ["1", "2", "3", "7", "-7", "-1"]:
            for op in OPS_I:
                if op == "^" and (int(b) < 0 or (abs(int(a)) > 3037000499 and int(b) > 1)):
                    continue
                if op in "+-*" and abs(int(a)) > 1 << 62:
                    continue
                if op == "*" and abs(int(a)) > 1 << 31 and abs(int(b)) > 1:
                    continue
                cases.append((a, op, b, "int"))
    progs = {0: [], 1: [], 2: ["fn ff(a: float, b: float, k: int) {", "}", "fn fi(a: int, b: int, k: int) {", "}"]}
    ff, fi = [], []
    for k, op in enumerate(OPS_F):
        ff.append("  if k == %d { println(a %s b) }" % (k, op))
    for k, op in enumerate(OPS_I):
        fi.append("  if k == %d { println(a %s b) }" % (k, op))
    header = ["fn ff(a: float, b: float, k: int) {"] + ff + ["}", "fn fi(a: int, b: int, k: int) {"] + fi + ["}"]
    l0, l1, l2 = [], [], list(header)
    for i, (a, op, b, ty) in enumerate(cases):
        l0.append("println(%s %s %s)" % (a, op, b))
        l1.append("let v%d = %s" % (i, a))
        l1.append("println(v%d %s %s)" % (i, op, b))
        l2.append("%s(%s, %s, %d)" % ("ff" if ty == "float" else "fi", a, b, (OPS_F if ty == "float" else OPS_I).index(op)))
    outs = []
    for lines in (l0, l1, l2):
        o, e, rc = abra_cli.run_program("\n".join(lines) + "\n", timeout=300)
        outs.append((o.strip().split("\n"), e))
    forms = ["literal op literal", "variable op literal", "variable op variable"]
    for i, (a, op, b, ty) in enumerate(cases):
        got = []
        for (o, e) in outs:
            got.append(o[i] if i < len(o) else "<stopped: %s>" % e.strip().split("\n")[0][:120])
        if not (got[0] == got[1] == got[2]):
            return dict(expression="%s %s %s" % (a, op, b), outputs=dict(zip(forms, got))), len(cases)
    # 2. error instances, one run each
    dz, ov = "error:divzero", "error:overflow"
    err_cases = [("1.0", "/", z, "float", dz) for z in F_ZEROS] + [("-1.5", "/", z, "float", dz) for z in F_ZEROS[:3]] + \
                [("7", "/", "0", "int", dz), ("7", "%", "0", "int", dz), ("9223372036854775807", "+", "1", "int", ov),
                 ("9223372036854775807", "*", "2", "int", ov), ("2", "^", "64", "int", ov), ("2", "^", "4294967298", "int", ov),
                 ("(0 - 9223372036854775807 - 1)", "/", "-1", "int", ov), ("(0 - 9223372036854775807)", "-", "2", "int", ov)]
    n = 0
    for a, op, b, ty, want in err_cases[:max_error_runs]:
        got = []
        for form, prog in _three(a, op, b, ty):
            got.append(_cls(*abra_cli.run_program(prog)))
            n += 1
        if not (got[0] == got[1] == got[2] == want):
            return dict(expression="%s %s %s" % (a, op, b), outputs=dict(zip(forms, got)),
                        expected="%s in all three operand forms" % want), len(cases) + len(err_cases)
    return None, len(cases) + len(err_cases)


def standin_obligation(E, oid, props, unit, file):
    """Bounded stand-in obligation, for units whose verifier could not decide some function on this tree."""
    bad, n = differential()
    return E.Obligation(oid, props, unit, "arithmetic/comparison operators on the real CLI", "bounded: differential run",
                        E.FAILED if bad else E.DISCHARGED, ("operand forms disagree on the real CLI: %r" % (bad,)) if bad else "", 0, file, "",
                        "%d expression instances x 3 operand forms (literal/literal, variable/literal, variable/variable)" % n,
                        "runs ONLY when some function of this unit could not be verified on this tree: every arithmetic/comparison operator with operands "
                        "as literals and as variables must give the same value or the same documented runtime error")


def standin_replay(ob):
    bad, n = differential()
    if bad:
        ob.cex = dict(expression=bad['expression'])
        return True, bad
    return None, dict(note="no disagreement among %d instances" % n)
