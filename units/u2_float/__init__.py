"""U2: float arms of step() on the real vm.rs (Kani, loop-free over all bit patterns)."""
import os
from units import vmk
import abra_cli

HERE = os.path.dirname(os.path.abspath(__file__))
UNIT = "U2-float"
ARMS = ['AddFloat', 'AddFloatImm', 'SubFloat', 'SubFloatImm', 'MulFloat', 'MulFloatImm', 'DivFloat', 'DivFloatImm',
        'LessThanFloat', 'LessThanFloatImm', 'LessThanOrEqualFloat', 'LessThanOrEqualFloatImm', 'GreaterThanFloat',
        'GreaterThanFloatImm', 'GreaterThanOrEqualFloat', 'GreaterThanOrEqualFloatImm', 'EqualFloat', 'EqualFloatImm',
        'IntFromFloat', 'FloatFromInt']
A = ["C16", "C05", "C01"]
T = [dict(h=h, id="C16.vm.%s.post" % arm, props=A, fn="step arm " + arm,
          text="for all bit patterns a, b: continues, no error, result is `a %s b` (operand order as written); Rust's f64 operator is IEEE-754 (assumed)" % op)
     for h, arm, op in [("add_float", "AddFloat", "+"), ("add_float_imm", "AddFloatImm", "+"), ("sub_float", "SubFloat", "-"),
                        ("sub_float_imm", "SubFloatImm", "-"), ("mul_float", "MulFloat", "*"), ("mul_float_imm", "MulFloatImm", "*")]]
T += [
    dict(h="div_float", id="C16.vm.DivFloat.post", props=A, fn="step arm DivFloat",
         text="b == +-0.0 <=> stops with DivisionByZero; otherwise continues with a float result (quotient itself = Rust `/`, not re-computed)"),
    dict(h="div_float_imm", id="C16.vm.DivFloatImm.post", props=A, fn="step arm DivFloatImm",
         text="same contract as DivFloat with the divisor taken from the constant table (literal operand, C05)"),
    dict(h="cmp_one_total_order", id="C16.cmp.one_total_order", props=["C16", "C24", "C01"], fn="step arms LessThanFloat, LessThanOrEqualFloat, GreaterThanFloat, GreaterThanOrEqualFloat, EqualFloat",
         text="for all bit patterns: le(x,y) == !lt(y,x); ge(x,y) == le(y,x); gt(x,y) == lt(y,x); eq == le && ge; trichotomy; reflexive; symmetric; consistent with numeric < on non-NaN"),
    dict(h="cmp_transitive", id="C16.cmp.transitive", props=["C16", "C24"], fn="float comparison arms",
         text="for all bit patterns a, b, c: lt, le and eq are transitive"),
    dict(h="cmp_imm_same_as_reg", id="C16.cmp.imm_same_as_reg", props=["C16", "C05", "C24"], fn="float comparison arms, immediate forms",
         text="each XFloatImm arm returns what XFloat returns on the same operands"),
    dict(h="int_from_float_truncates", id="C16.conv.int_from_float", props=["C16", "C01"], fn="step arm IntFromFloat",
         text="never stops; for finite |f| < 2^62 the result n satisfies n <= f < n+1 (f >= 0) / n >= f > n-1 (f < 0): truncation toward zero"),
    dict(h="float_from_int_exact_when_representable", id="C16.conv.float_from_int", props=["C16", "C01"], fn="step arm FloatFromInt",
         text="finite, in range, exact for |n| < 2^53, monotone"),
]
for r in T:
    r['h'] = "vm::u2::" + r['h']

# libm arms: delegation contracts (the std function is replaced by a recorder, kani::stub)
LIBM = [("power_float", "PowerFloat", "powf"), ("power_float_imm", "PowerFloatImm", "powf"), ("atan2", "Atan2", "atan2"), ("ceil", "Ceil", "ceil"),
        ("floor", "Floor", "floor"), ("round", "Round", "round"), ("square_root", "SquareRoot", "sqrt"), ("sin", "Sin", "sin"), ("cos", "Cos", "cos"),
        ("tan", "Tan", "tan"), ("asin", "Asin", "asin"), ("acos", "Acos", "acos"), ("atan", "Atan", "atan"), ("log", "Log", "ln"),
        ("log2", "Log2", "log2"), ("log10", "Log10", "log10")]
LIBM_ARMS = [a for _, a, _ in LIBM]
TM = [dict(h="vm::u2m::" + h, id="C16.vm.%s.delegates" % arm, props=["C16", "C01"] + (["C05"] if arm.endswith("Imm") else []), fn="step arm " + arm,
           text="for all bit patterns of the operands and every value the call may return: the arm never stops, calls f64::%s exactly once on its operands "
                "in the written order (for the Imm form: the constant-table entry) and stores exactly the returned value; f64::%s itself is trusted std/libm" % (f, f))
      for h, arm, f in LIBM]


def run(tier="quick"):
    obs, info = _run_main(tier)
    obs2, info2 = vmk.run_table(UNIT, "u2m", LIBM_ARMS, os.path.join(HERE, "harness_libm.rs"), TM, timeout=400, jobs=4, kani_extra=["--no-overflow-checks"],
                                extra_info=dict(assumptions=["U2: f64::powf, atan2, ceil, floor, round, sqrt, sin, cos, tan, asin, acos, atan, ln, log2, log10 are trusted (std/libm); "
                                                             "the delegation obligations replace them by a recorder returning an arbitrary value (kani::stub)"]))
    for k in ('assumptions', 'trusted_base', 'checker_cmds'):
        info[k] = list(info.get(k, [])) + [x for x in info2.get(k, []) if x not in info.get(k, [])]
    return obs + obs2, info


def _run_main(tier="quick"):
    return vmk.run_table(UNIT, "u2", ARMS, os.path.join(HERE, "harness.rs"), T, timeout=600, jobs=4,
                         kani_extra=["--no-overflow-checks"],  # Kani's default NaN/float-overflow checks flag legitimate IEEE results (inf - inf)
                         extra_info=dict(assumptions=[
                             "U2: Rust's f64 + - * / are IEEE-754 binary64 operations (hardware/LLVM); CBMC's float model is bit-precise for + - * and comparisons",
                             "U2: Kani run with --no-overflow-checks: its NaN / float-overflow checks reject legitimate IEEE results such as inf - inf = NaN; the arms under test contain no integer arithmetic",
                             "U2: the values of powf, sqrt, sin..log10, ceil/floor/round are NOT verified (CBMC has no model of libm); that the arms delegate to exactly those std functions is (C16.vm.*.delegates)",
                         ]))


GRID = ["0.0", "-0.0", "1.0", "-1.0", "0.5", "2.0", "3.0", "0.1", "0.30000000000000004", "1000000000000000.0", "9007199254740993.0"]


def replay(ob):
    """Kani's counterexamples are bit patterns that mostly cannot be written as Abra literals (no
    exponent syntax, NaN, infinities).  The replay therefore runs every float operator on a grid of
    literal-expressible values on the real CLI twice — right operand as a LITERAL (immediate opcode)
    and as a VARIABLE (register opcode) — and, for both, against IEEE arithmetic computed in Python
    with the comparison semantics the property states (one total order: -0.0 < 0.0)."""
    import math
    import struct

    def key(x):  # total order key: sign-magnitude bits
        b = struct.unpack('<q', struct.pack('<d', x))[0]
        return b if b >= 0 else -(b & 0x7fffffffffffffff) - 1

    ops = ["==", "!=", "<", "<=", ">", ">=", "+", "-", "*", "/"]
    lines = ["fn v(a: float, b: float, op: int) {",
             "  if op == 0 { println(a == b) }", "  if op == 1 { println(a != b) }", "  if op == 2 { println(a < b) }",
             "  if op == 3 { println(a <= b) }", "  if op == 4 { println(a > b) }", "  if op == 5 { println(a >= b) }",
             "  if op == 6 { println(a + b) }", "  if op == 7 { println(a - b) }", "  if op == 8 { println(a * b) }",
             "  if op == 9 { println(a / b) }", "}"]
    cases = []
    for a in GRID:
        for b in GRID:
            for k, op in enumerate(ops):
                if op == "/" and float(b) == 0.0:
                    continue
                lines.append("let a_%d = %s" % (len(cases), a))
                lines.append("println(a_%d %s %s)" % (len(cases), op, b))     # literal right operand
                lines.append("v(%s, %s, %d)" % (a, b, k))                      # variable operands
                fa, fb = float(a), float(b)
                if k < 6:
                    ka, kb = key(fa), key(fb)
                    want = [ka == kb, ka != kb, ka < kb, ka <= kb, ka > kb, ka >= kb][k]
                    want = str(want).lower()
                else:
                    want = (fa + fb) if k == 6 else (fa - fb) if k == 7 else (fa * fb) if k == 8 else (fa / fb)
                cases.append((a, op, b, want))
    out, err, rc = abra_cli.run_program("\n".join(lines) + "\n", timeout=300)
    got = out.strip().split("\n")
    for i, (a, op, b, want) in enumerate(cases):
        for j, form in ((2 * i, "literal"), (2 * i + 1, "variable")):
            g = got[j] if j < len(got) else "<missing: %s>" % err.strip().split("\n")[0][:150]
            if isinstance(want, str):
                ok = (g == want)
            else:
                try:
                    ok = (float(g) == want and math.copysign(1, float(g)) == math.copysign(1, want))
                except ValueError:
                    ok = False
            if not ok:
                ob.cex = dict(a=a, op=op, b=b, operand_form=form)
                return True, dict(expression="%s %s %s" % (a, op, b), operand_form=form, real_output=g, expected=str(want))
    # division by zero: literal and variable divisor must both stop with the error
    for prog, form in (("let a = 1.0\nprintln(a / 0.0)\n", "literal"), ("fn d(a: float, b: float) = a / b\nprintln(d(1.0, 0.0))\n", "variable"),
                       ("let a = 1.0\nprintln(a / -0.0)\n", "literal -0.0")):
        out, err, rc = abra_cli.run_program(prog)
        if "division by zero" not in (out + err):
            return True, dict(program=prog, operand_form=form, real_output=(out + err)[:300], expected="division by zero runtime error")
    # `^`: no independent oracle for powf; the literal-exponent form (PowerFloatImm) must print what the variable form (PowerFloat) prints
    bases = ["0.0", "-0.0", "2.0", "-2.0", "0.25", "-0.25", "9.0", "(0.0 - 10.0 ^ 400.0)", "(10.0 ^ 400.0)"]
    exps = ["0.5", "2.0", "3.0", "0.0", "1.0", "-1.0", "-0.5", "1.5"]
    lines, pairs = ["fn id(x: float) = x", "fn pw(a: float, b: float) = a ^ b"], []
    for a in bases:
        for e in exps:
            lines.append("println(id(%s) ^ %s)" % (a, e))
            lines.append("println(pw(id(%s), id(%s)))" % (a, e))
            pairs.append((a, e))
    out, err, rc = abra_cli.run_program("\n".join(lines) + "\n", timeout=300)
    got = out.strip().split("\n")
    for i, (a, e) in enumerate(pairs):
        gl = got[2 * i] if 2 * i < len(got) else "<missing: %s>" % err.strip().split("\n")[0][:150]
        gv = got[2 * i + 1] if 2 * i + 1 < len(got) else "<missing>"
        if gl != gv:
            ob.cex = dict(a=a, op="^", b=e)
            return True, dict(expression="%s ^ %s" % (a, e), literal_exponent_prints=gl, variable_exponent_prints=gv)
    return None, dict(note="no disagreement on %d operator instances x 2 operand forms on the real CLI" % (len(cases) + len(pairs)))
