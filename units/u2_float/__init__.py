"""U2: float arms of step() on the real vm.rs (Kani, loop-free over all bit patterns)."""
import os
from units import vmk
import abra_cli

HERE = os.path.dirname(os.path.abspath(__file__))
UNIT = "U2-float"
ARMS = ['AddFloat', 'AddFloatImm', 'SubFloat', 'SubFloatImm', 'MulFloat', 'MulFloatImm', 'DivFloat', 'DivFloatImm',
        'LessThanFloat', 'LessThanFloatImm', 'LessThanOrEqualFloat', 'LessThanOrEqualFloatImm', 'GreaterThanFloat',
        'GreaterThanFloatImm', 'GreaterThanOrEqualFloat', 'GreaterThanOrEqualFloatImm', 'EqualFloat', 'EqualFloatImm',
        'IntFromFloat', 'FloatFromInt']
A = ["C16", "C05", "C01"]
T = [dict(h=h, id="C16.vm.%s.post" % arm, props=A, fn="step arm " + arm,
          text="for all bit patterns a, b: continues, no error, result is `a %s b` (operand order as written); Rust's f64 operator is IEEE-754 (assumed)" % op)
     for h, arm, op in [("add_float", "AddFloat", "+"), ("add_float_imm", "AddFloatImm", "+"), ("sub_float", "SubFloat", "-"),
                        ("sub_float_imm", "SubFloatImm", "-"), ("mul_float", "MulFloat", "*"), ("mul_float_imm", "MulFloatImm", "*")]]
T += [
    dict(h="div_float", id="C16.vm.DivFloat.post", props=A, fn="step arm DivFloat",
         text="b == +-0.0 <=> stops with DivisionByZero; otherwise continues with a float result (quotient itself = Rust `/`, not re-computed)"),
    dict(h="div_float_imm", id="C16.vm.DivFloatImm.post", props=A, fn="step arm DivFloatImm",
         text="same contract as DivFloat with the divisor taken from the constant table (literal operand, C05)"),
    dict(h="cmp_one_total_order", id="C16.cmp.one_total_order", props=["C16", "C24", "C01"], fn="step arms LessThanFloat, LessThanOrEqualFloat, GreaterThanFloat, GreaterThanOrEqualFloat, EqualFloat",
         text="for all bit patterns: le(x,y) == !lt(y,x); ge(x,y) == le(y,x); gt(x,y) == lt(y,x); eq == le && ge; trichotomy; reflexive; symmetric; consistent with numeric < on non-NaN"),
    dict(h="cmp_transitive", id="C16.cmp.transitive", props=["C16", "C24"], fn="float comparison arms",
         text="for all bit patterns a, b, c: lt, le and eq are transitive"),
    dict(h="cmp_imm_same_as_reg", id="C16.cmp.imm_same_as_reg", props=["C16", "C05", "C24"], fn="float comparison arms, immediate forms",
         text="each XFloatImm arm returns what XFloat returns on the same operands"),
    dict(h="int_from_float_truncates", id="C16.conv.int_from_float", props=["C16", "C01"], fn="step arm IntFromFloat",
         text="never stops; for finite |f| < 2^62 the result n satisfies n <= f < n+1 (f >= 0) / n >= f > n-1 (f < 0): truncation toward zero"),
    dict(h="float_from_int_exact_when_representable", id="C16.conv.float_from_int", props=["C16", "C01"], fn="step arm FloatFromInt",
         text="finite, in range, exact for |n| < 2^53, monotone"),
]
for r in T:
    r['h'] = "vm::u2::" + r['h']


def run(tier="quick"):
    return vmk.run_table(UNIT, "u2", ARMS, os.path.join(HERE, "harness.rs"), T, timeout=600, jobs=4,
                         kani_extra=["--no-overflow-checks"],  # Kani's default NaN/float-overflow checks flag legitimate IEEE results (inf - inf)
                         extra_info=dict(assumptions=[
                             "U2: Rust's f64 + - * / are IEEE-754 binary64 operations (hardware/LLVM); CBMC's float model is bit-precise for + - * and comparisons",
                             "U2: Kani run with --no-overflow-checks: its NaN / float-overflow checks reject legitimate IEEE results such as inf - inf = NaN; the arms under test contain no integer arithmetic",
                             "U2: powf, sqrt, sin..log10, ceil/floor/round arms are NOT verified (CBMC has no model of libm); they call the std function named by the opcode (by inspection)",
                         ]))


def replay(ob):
    if "DivFloat" in ob.id:
        prog = ("fn d(a: float, b: float) = a / b\nlet z = 0.0\nprintln(1.0 / 0.0)\n")
        out, err, rc = abra_cli.run_program(prog)
        bad = "division by zero" not in (out + err)
        return (True if bad else None), dict(program=prog, real_output=(out + err)[:500], expected="division by zero runtime error for a literal zero divisor, as for a variable one")
    return None, dict(note="no canned replay")
