"""U2: float arms of step() on the real vm.rs (Kani, loop-free over all bit patterns)."""
import os
from units import vmk
import abra_cli

HERE = os.path.dirname(os.path.abspath(__file__))
UNIT = "U2-float"
ARMS = ['AddFloat', 'AddFloatImm', 'SubFloat', 'SubFloatImm', 'MulFloat', 'MulFloatImm', 'DivFloat', 'DivFloatImm',
        'LessThanFloat', 'LessThanFloatImm', 'LessThanOrEqualFloat', 'LessThanOrEqualFloatImm', 'GreaterThanFloat',
        'GreaterThanFloatImm', 'GreaterThanOrEqualFloat', 'GreaterThanOrEqualFloatImm', 'EqualFloat', 'EqualFloatImm',
        'IntFromFloat', 'FloatFromInt']
A = ["C16", "C05", "C01"]
T = [dict(h=h, id="C16.vm.%s.post" % arm, props=A, fn="step arm " + arm,
          text="for all bit patterns a, b: continues, no error, result is `a %s b` (operand order as written); Rust's f64 operator is IEEE-754 (assumed)" % op)
     for h, arm, op in [("add_float", "AddFloat", "+"), ("add_float_imm", "AddFloatImm", "+"), ("sub_float", "SubFloat", "-"),
                        ("sub_float_imm", "SubFloatImm", "-"), ("mul_float", "MulFloat", "*"), ("mul_float_imm", "MulFloatImm", "*")]]
T += [
    dict(h="div_float", id="C16.vm.DivFloat.post", props=A, fn="step arm DivFloat",
         text="b == +-0.0 <=> stops with DivisionByZero; otherwise continues with a float result (quotient itself = Rust `/`, not re-computed)"),
    dict(h="div_float_imm", id="C16.vm.DivFloatImm.post", props=A, fn="step arm DivFloatImm",
         text="same contract as DivFloat with the divisor taken from the constant table (literal operand, C05)"),
    dict(h="cmp_one_total_order", id="C16.cmp.one_total_order", props=["C16", "C24", "C01"], fn="step arms LessThanFloat, LessThanOrEqualFloat, GreaterThanFloat, GreaterThanOrEqualFloat, EqualFloat",
         text="for all bit patterns: le(x,y) == !lt(y,x); ge(x,y) == le(y,x); gt(x,y) == lt(y,x); eq == le && ge; trichotomy; reflexive; symmetric; consistent with numeric < on non-NaN"),
    dict(h="cmp_transitive", id="C16.cmp.transitive", props=["C16", "C24"], fn="float comparison arms",
         text="for all bit patterns a, b, c: lt, le and eq are transitive"),
    dict(h="cmp_imm_same_as_reg", id="C16.cmp.imm_same_as_reg", props=["C16", "C05", "C24"], fn="float comparison arms, immediate forms",
         text="each XFloatImm arm returns what XFloat returns on the same operands"),
    dict(h="int_from_float_truncates", id="C16.conv.int_from_float", props=["C16", "C01"], fn="step arm IntFromFloat",
         text="never stops; for finite |f| < 2^62 the result n satisfies n <= f < n+1 (f >= 0) / n >= f > n-1 (f < 0): truncation toward zero"),
    dict(h="float_from_int_exact_when_representable", id="C16.conv.float_from_int", props=["C16", "C01"], fn="step arm FloatFromInt",
         text="finite, in range, exact for |n| < 2^53, monotone"),
]
for r in T:
    r['h'] = "vm::u2::" + r['h']


def run(tier="quick"):
    return vmk.run_table(UNIT, "u2", ARMS, os.path.join(HERE, "harness.rs"), T, timeout=600, jobs=4,
                         kani_extra=["--no-overflow-checks"],  # Kani's default NaN/float-overflow checks flag legitimate IEEE results (inf - inf)
                         extra_info=dict(assumptions=[
                             "U2: Rust's f64 + - * / are IEEE-754 binary64 operations (hardware/LLVM); CBMC's float model is bit-precise for + - * and comparisons",
                             "U2: Kani run with --no-overflow-checks: its NaN / float-overflow checks reject legitimate IEEE results such as inf - inf = NaN; the arms under test contain no integer arithmetic",
                             "U2: powf, sqrt, sin..log10, ceil/floor/round arms are NOT verified (CBMC has no model of libm); they call the std function named by the opcode (by inspection)",
                         ]))


GRID = ["0.0", "-0.0", "1.0", "-1.0", "0.5", "2.0", "3.0", "0.1", "0.30000000000000004", "1000000000000000.0", "9007199254740993.0"]


def replay(ob):
    """Kani's counterexamples are bit patterns that mostly cannot be written as Abra literals (no
    exponent syntax, NaN, infinities).  The replay therefore runs every float operator on a grid of
    literal-expressible values on the real CLI twice — right operand as a LITERAL (immediate opcode)
    and as a VARIABLE (register opcode) — and, for both, against IEEE arithmetic computed in Python
    with the comparison semantics the property states (one total order: -0.0 < 0.0)."""
    import math
    import struct

    def key(x):  # total order key: sign-magnitude bits
        b = struct.unpack('<q', struct.pack('<d', x))[0]
        return b if b >= 0 else -(b & 0x7fffffffffffffff) - 1

    ops = ["==", "!=", "<", "<=", ">", ">=", "+", "-", "*", "/"]
    lines = ["fn v(a: float, b: float, op: int) {",
             "  if op == 0 { println(a == b) }", "  if op == 1 { println(a != b) }", "  if op == 2 { println(a < b) }",
             "  if op == 3 { println(a <= b) }", "  if op == 4 { println(a > b) }", "  if op == 5 { println(a >= b) }",
             "  if op == 6 { println(a + b) }", "  if op == 7 { println(a - b) }", "  if op == 8 { println(a * b) }",
             "  if op == 9 { println(a / b) }", "}"]
    cases = []
    for a in GRID:
        for b in GRID:
            for k, op in enumerate(ops):
                if op == "/" and float(b) == 0.0:
                    continue
                lines.append("let a_%d = %s" % (len(cases), a))
                lines.append("println(a_%d %s %s)" % (len(cases), op, b))     # literal right operand
                lines.append("v(%s, %s, %d)" % (a, b, k))                      # variable operands
                fa, fb = float(a), float(b)
                if k < 6:
                    ka, kb = key(fa), key(fb)
                    want = [ka == kb, ka != kb, ka < kb, ka <= kb, ka > kb, ka >= kb][k]
                    want = str(want).lower()
                else:
                    want = (fa + fb) if k == 6 else (fa - fb) if k == 7 else (fa * fb) if k == 8 else (fa / fb)
                cases.append((a, op, b, want))
    out, err, rc = abra_cli.run_program("\n".join(lines) + "\n", timeout=300)
    got = out.strip().split("\n")
    for i, (a, op, b, want) in enumerate(cases):
        for j, form in ((2 * i, "literal"), (2 * i + 1, "variable")):
            g = got[j] if j < len(got) else "<missing: %s>" % err.strip().split("\n")[0][:150]
            if isinstance(want, str):
                ok = (g == want)
            else:
                try:
                    ok = (float(g) == want and math.copysign(1, float(g)) == math.copysign(1, want))
                except ValueError:
                    ok = False
            if not ok:
                ob.cex = dict(a=a, op=op, b=b, operand_form=form)
                return True, dict(expression="%s %s %s" % (a, op, b), operand_form=form, real_output=g, expected=str(want))
    # division by zero: literal and variable divisor must both stop with the error
    for prog, form in (("let a = 1.0\nprintln(a / 0.0)\n", "literal"), ("fn d(a: float, b: float) = a / b\nprintln(d(1.0, 0.0))\n", "variable"),
                       ("let a = 1.0\nprintln(a / -0.0)\n", "literal -0.0")):
        out, err, rc = abra_cli.run_program(prog)
        if "division by zero" not in (out + err):
            return True, dict(program=prog, operand_form=form, real_output=(out + err)[:300], expected="division by zero runtime error")
    return None, dict(note="no disagreement on %d operator instances x 2 operand forms on the real CLI" % len(cases))
