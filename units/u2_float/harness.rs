// U2: float arms on the real vm.rs, loop-free over ALL bit patterns of both operands
// (complete proofs).  Quotients/products of two symbolic operands are never compared
// against a second computation (CBMC cost); what is checked is operand order, the error
// condition, the order laws of the comparison arms, and the conversion contracts.
#[cfg(kani)]
mod u2 {
    use super::hs::*;
    use super::*;

    fn anyf() -> f64 {
        f64::from_bits(kani::any())
    }
    fn bin(f: fn(&mut VmGreenThread, u16, u16, u16) -> bool, a: f64, b: f64) -> (bool, VmGreenThread) {
        let mut t = mk_thread_with(vec![Value::from(a), Value::from(b)], 0, vec![], vec![]);
        let c = f(&mut t, TOP, TOP, TOP);
        (c, t)
    }
    fn imm(f: fn(&mut VmGreenThread, u16, u16, u16) -> bool, a: f64, b: f64) -> (bool, VmGreenThread) {
        let mut t = mk_thread_with(vec![Value::from(a)], 0, vec![], vec![b]);
        let c = f(&mut t, TOP, TOP, 0);
        (c, t)
    }
    fn res_bits(t: &VmGreenThread) -> u64 {
        assert!(t.value_stack.len() == 1 && t.value_stack[0].1 == ValueTag::Float, "one float result");
        t.value_stack[0].0
    }
    fn res_bool(t: &VmGreenThread) -> bool {
        assert!(t.value_stack.len() == 1 && t.value_stack[0].1 == ValueTag::Bool, "one bool result");
        t.value_stack[0].0 != 0
    }

    // + - * : the arm applies the IEEE operator named by the opcode to (a, b) in that order
    macro_rules! arith {
        ($h:ident, $run:ident, $arm:ident, $op:tt) => {
            #[kani::proof]
            fn $h() {
                let a = anyf();
                let b = anyf();
                let (c, t) = $run(VmGreenThread::$arm, a, b);
                assert!(c && err_kind(&t) == 0, "float + - * never stop the program");
                let want = a $op b;
                // identical operation on identical operands: bit-identical, NaN included
                assert!(res_bits(&t) == want.to_bits() || (want.is_nan() && f64::from_bits(res_bits(&t)).is_nan()), "result is a OP b");
                kani::cover!(true, "reachable");
                std::mem::forget(t);
            }
        };
    }
    arith!(add_float, bin, arm_AddFloat, +);
    arith!(add_float_imm, imm, arm_AddFloatImm, +);
    arith!(sub_float, bin, arm_SubFloat, -);
    arith!(sub_float_imm, imm, arm_SubFloatImm, -);
    arith!(mul_float, bin, arm_MulFloat, *);
    arith!(mul_float_imm, imm, arm_MulFloatImm, *);

    // / : division by (+0.0 or -0.0) stops with DivisionByZero, identically for variable and
    // literal divisors (C05, C16); any other divisor continues without error
    macro_rules! divf {
        ($h:ident, $run:ident, $arm:ident) => {
            #[kani::proof]
            fn $h() {
                let a = anyf();
                let b = anyf();
                let (c, t) = $run(VmGreenThread::$arm, a, b);
                if b == 0.0 {
                    assert!(!c, "zero divisor: the program stops");
                    assert!(err_kind(&t) == 4, "zero divisor: DivisionByZero");
                } else {
                    assert!(c && err_kind(&t) == 0, "non-zero divisor: no error");
                    assert!(t.value_stack.len() == 1 && t.value_stack[0].1 == ValueTag::Float);
                }
                kani::cover!(b == 0.0, "zero divisor reachable");
                std::mem::forget(t);
            }
        };
    }
    divf!(div_float, bin, arm_DivFloat);
    divf!(div_float_imm, imm, arm_DivFloatImm);

    // comparison arms, register and immediate forms
    fn lt(a: f64, b: f64) -> bool { let (c, t) = bin(VmGreenThread::arm_LessThanFloat, a, b); let r = res_bool(&t); std::mem::forget(t); assert!(c); r }
    fn le(a: f64, b: f64) -> bool { let (c, t) = bin(VmGreenThread::arm_LessThanOrEqualFloat, a, b); let r = res_bool(&t); std::mem::forget(t); assert!(c); r }
    fn gt(a: f64, b: f64) -> bool { let (c, t) = bin(VmGreenThread::arm_GreaterThanFloat, a, b); let r = res_bool(&t); std::mem::forget(t); assert!(c); r }
    fn ge(a: f64, b: f64) -> bool { let (c, t) = bin(VmGreenThread::arm_GreaterThanOrEqualFloat, a, b); let r = res_bool(&t); std::mem::forget(t); assert!(c); r }
    fn eq(a: f64, b: f64) -> bool { let (c, t) = bin(VmGreenThread::arm_EqualFloat, a, b); let r = res_bool(&t); std::mem::forget(t); assert!(c); r }
    fn lt_i(a: f64, b: f64) -> bool { let (c, t) = imm(VmGreenThread::arm_LessThanFloatImm, a, b); let r = res_bool(&t); std::mem::forget(t); assert!(c); r }
    fn le_i(a: f64, b: f64) -> bool { let (c, t) = imm(VmGreenThread::arm_LessThanOrEqualFloatImm, a, b); let r = res_bool(&t); std::mem::forget(t); assert!(c); r }
    fn gt_i(a: f64, b: f64) -> bool { let (c, t) = imm(VmGreenThread::arm_GreaterThanFloatImm, a, b); let r = res_bool(&t); std::mem::forget(t); assert!(c); r }
    fn ge_i(a: f64, b: f64) -> bool { let (c, t) = imm(VmGreenThread::arm_GreaterThanOrEqualFloatImm, a, b); let r = res_bool(&t); std::mem::forget(t); assert!(c); r }
    fn eq_i(a: f64, b: f64) -> bool { let (c, t) = imm(VmGreenThread::arm_EqualFloatImm, a, b); let r = res_bool(&t); std::mem::forget(t); assert!(c); r }

    #[kani::proof]
    fn cmp_one_total_order() {
        let a = anyf();
        let b = anyf();
        let (l, le_, g, ge_, e) = (lt(a, b), le(a, b), gt(a, b), ge(a, b), eq(a, b));
        assert!(le_ == !lt(b, a), "x <= y exactly when not y < x");
        assert!(ge_ == le(b, a), "x >= y exactly when y <= x");
        assert!(g == lt(b, a), "x > y exactly when y < x");
        assert!(e == (le_ && ge_), "== is <= and >=");
        assert!(l || e || g, "total");
        assert!(!(l && g) && !(l && e) && !(g && e), "exactly one of < == >");
        assert!(eq(a, a) && !lt(a, a), "reflexive / irreflexive");
        assert!(e == eq(b, a), "== symmetric");
        // consistent with the numeric order on ordinary numbers
        if !a.is_nan() && !b.is_nan() && a < b {
            assert!(l, "numerically smaller is smaller");
        }
        kani::cover!(a.is_nan(), "NaN reachable");
        kani::cover!(l, "lt reachable");
    }
    #[kani::proof]
    fn cmp_transitive() {
        let a = anyf();
        let b = anyf();
        let c = anyf();
        if lt(a, b) && lt(b, c) {
            assert!(lt(a, c), "< transitive");
        }
        if eq(a, b) && eq(b, c) {
            assert!(eq(a, c), "== transitive");
        }
        if le(a, b) && le(b, c) {
            assert!(le(a, c), "<= transitive");
        }
        kani::cover!(lt(a, b) && lt(b, c), "chain reachable");
    }
    #[kani::proof]
    fn cmp_imm_same_as_reg() {
        let a = anyf();
        let b = anyf();
        assert!(lt_i(a, b) == lt(a, b), "LessThanFloatImm == LessThanFloat");
        assert!(le_i(a, b) == le(a, b), "LessThanOrEqualFloatImm == LessThanOrEqualFloat");
        assert!(gt_i(a, b) == gt(a, b), "GreaterThanFloatImm == GreaterThanFloat");
        assert!(ge_i(a, b) == ge(a, b), "GreaterThanOrEqualFloatImm == GreaterThanOrEqualFloat");
        assert!(eq_i(a, b) == eq(a, b), "EqualFloatImm == EqualFloat");
        kani::cover!(true, "reachable");
    }

    // conversions
    #[kani::proof]
    fn int_from_float_truncates() {
        let f = anyf();
        let mut t = mk_thread_with(vec![Value::from(f)], 0, vec![], vec![]);
        assert!(t.arm_IntFromFloat(TOP, TOP), "never stops the program (NaN, infinities, out of range included)");
        assert!(err_kind(&t) == 0);
        assert!(t.value_stack.len() == 1 && t.value_stack[0].1 == ValueTag::Int);
        let n = t.value_stack[0].0 as i64;
        let lim = 4611686018427387904.0f64; // 2^62
        let exact = 9007199254740992.0f64; // 2^53: from here on every f64 is an integer
        if !f.is_nan() && f > -lim && f < lim {
            let nf = n as f64; // exact: below 2^53 every integer is representable; above, n == f
            if f >= exact || f <= -exact {
                assert!(nf == f, "integral float converts to itself");
            } else if f >= 0.0 {
                assert!(nf <= f && f < nf + 1.0, "truncation toward zero (non-negative)");
                assert!(n >= 0);
            } else {
                assert!(nf >= f && f > nf - 1.0, "truncation toward zero (negative)");
                assert!(n <= 0);
            }
        }
        kani::cover!(f > 3.0 && f < 4.0, "fractional reachable");
        std::mem::forget(t);
    }
    #[kani::proof]
    fn float_from_int_exact_when_representable() {
        let n: i64 = kani::any();
        let mut t = mk_thread_with(vec![Value::from(n)], 0, vec![], vec![]);
        assert!(t.arm_FloatFromInt(TOP, TOP));
        let f = f64::from_bits(res_bits(&t));
        assert!(!f.is_nan() && f >= -9223372036854775808.0 && f <= 9223372036854775808.0, "finite and in range");
        if n > -9007199254740992 && n < 9007199254740992 {
            assert!(f as i64 == n, "|n| < 2^53: exact");
        }
        // monotone: a larger integer never converts to a smaller float
        let m: i64 = kani::any();
        let mut t2 = mk_thread_with(vec![Value::from(m)], 0, vec![], vec![]);
        assert!(t2.arm_FloatFromInt(TOP, TOP));
        let g = f64::from_bits(res_bits(&t2));
        if n <= m {
            assert!(f <= g, "monotone (round-to-nearest is monotone)");
        }
        kani::cover!(true, "reachable");
        std::mem::forget(t);
        std::mem::forget(t2);
    }
}
