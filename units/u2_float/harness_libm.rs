// U2 (libm arms): CBMC has no model of powf/sqrt/sin/...; what CAN be decided is delegation: the arm calls the std
// function its opcode names exactly once, on its operands in the written order, and stores exactly what that call
// returns.  The std function is replaced (kani::stub) by a recorder that returns an arbitrary bit pattern.
#[cfg(kani)]
mod u2m {
    use super::hs::*;
    use super::*;
    static mut CALLS: u32 = 0;
    static mut ARG_A: u64 = 0;
    static mut ARG_B: u64 = 0;
    static mut RET: u64 = 0;
    fn rec2(a: f64, b: f64) -> f64 {
        unsafe {
            CALLS += 1;
            ARG_A = a.to_bits();
            ARG_B = b.to_bits();
            f64::from_bits(RET)
        }
    }
    fn rec1(a: f64) -> f64 {
        unsafe {
            CALLS += 1;
            ARG_A = a.to_bits();
            f64::from_bits(RET)
        }
    }
    fn check_result(t: &VmGreenThread, c: bool, r: u64) {
        assert!(c && err_kind(t) == 0, "libm arms never stop the program");
        assert!(unsafe { CALLS } == 1, "the std function named by the opcode is called exactly once");
        assert!(t.value_stack.len() == 1 && t.value_stack[0].1 == ValueTag::Float && t.value_stack[0].0 == r, "exactly the value it returns is stored");
    }
    macro_rules! binary {
        ($h:ident, $std:path, $arm:ident, $imm:expr) => {
            #[kani::proof]
            #[kani::stub($std, rec2)]
            fn $h() {
                let a = f64::from_bits(kani::any());
                let b = f64::from_bits(kani::any());
                let r: u64 = kani::any();
                unsafe { RET = r; }
                let mut t = if $imm { mk_thread_with(vec![Value::from(a)], 0, vec![], vec![b]) } else { mk_thread_with(vec![Value::from(a), Value::from(b)], 0, vec![], vec![]) };
                let c = VmGreenThread::$arm(&mut t, TOP, TOP, if $imm { 0 } else { TOP });
                check_result(&t, c, r);
                assert!(unsafe { ARG_A } == a.to_bits() && unsafe { ARG_B } == b.to_bits(), "called on (a, b) in the written order");
                kani::cover!(true, "reachable");
                std::mem::forget(t);
            }
        };
    }
    macro_rules! unary {
        ($h:ident, $std:path, $arm:ident) => {
            #[kani::proof]
            #[kani::stub($std, rec1)]
            fn $h() {
                let a = f64::from_bits(kani::any());
                let r: u64 = kani::any();
                unsafe { RET = r; }
                let mut t = mk_thread_with(vec![Value::from(a)], 0, vec![], vec![]);
                let c = VmGreenThread::$arm(&mut t, TOP, TOP);
                check_result(&t, c, r);
                assert!(unsafe { ARG_A } == a.to_bits(), "called on the operand");
                kani::cover!(true, "reachable");
                std::mem::forget(t);
            }
        };
    }
    binary!(power_float, f64::powf, arm_PowerFloat, false);
    binary!(power_float_imm, f64::powf, arm_PowerFloatImm, true);
    binary!(atan2, f64::atan2, arm_Atan2, false);
    unary!(ceil, f64::ceil, arm_Ceil);
    unary!(floor, f64::floor, arm_Floor);
    unary!(round, f64::round, arm_Round);
    unary!(square_root, f64::sqrt, arm_SquareRoot);
    unary!(sin, f64::sin, arm_Sin);
    unary!(cos, f64::cos, arm_Cos);
    unary!(tan, f64::tan, arm_Tan);
    unary!(asin, f64::asin, arm_Asin);
    unary!(acos, f64::acos, arm_Acos);
    unary!(atan, f64::atan, arm_Atan);
    unary!(log, f64::ln, arm_Log);
    unary!(log2, f64::log2, arm_Log2);
    unary!(log10, f64::log10, arm_Log10);
}
