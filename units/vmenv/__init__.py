"""Shared Verus environment for VM arms: real type definitions cut from vm.rs +
hand-written spec vocabulary and contract-only helper stand-ins (spec.rs)."""
import os
import re
import slicer as S

V = 'abra_core/src/vm.rs'
HERE = os.path.dirname(os.path.abspath(__file__))

REAL_TYPES = [r'pub enum ValueTag \{', r'pub struct Value\(', r'pub struct ProgramCounter\(',
              r'pub enum ExpectedType \{', r'pub enum VmErrorKind \{', r'pub struct VmErrorLocation \{',
              r'pub struct VmError \{', r'struct CallFrame \{', r'enum GcState \{',
              r'struct ObjectHeader \{', r'enum ObjectKind \{', r'struct StringObject \{',
              r'pub enum Instr \{', r'pub struct CallData\(']

DROPPED = ["VmGreenThread.new_threads_sender (mpsc Sender: no Verus model; SpawnTask is not in any Verus unit)",
           "VmSharedReadonly fields under #[cfg(feature = \"ffi\")] (FFI build configuration not covered)"]

ASSUMED = [
    "verus/vmenv: `global size_of usize == 8` (64-bit target, as the VM's own `const _: [(); 16] = [(); size_of::<Value>()]` requires)",
    "verus/vmenv: value encoding axioms val_int/int_of, val_bool/bool_of (round trips) — discharged separately by Kani U4.enc.* on the real From<_> for Value / Value::get_* text",
    "verus/vmenv: contract of load_offset_or_top / store_offset_or_top (external_body stand-in) — discharged separately by Kani U4.stack.* on the real text (bounded stack length)",
    "verus/vmenv: make_error(kind) returns an error whose kind is `kind` (external_body; drops location/trace construction, see C32)",
]


def prelude(extra_spec=(), stubs=True):
    """Assembled Verus prelude text: real types + spec vocabulary (+ helper stand-ins)."""
    parts = ["#![allow(unused_imports, dead_code, unused_variables, non_snake_case, unused_mut, unused_assignments)]\n"
             "use vstd::prelude::*;\nuse std::sync::Arc;\nverus! {\nglobal size_of usize == 8;\n"]
    parts.append("pub type AbraInt = i64;\npub type AbraFloat = f64;\ntype BytecodeIndex = u32;\n")
    for rx in REAL_TYPES:
        parts.append("// ---- real (vm.rs) ----\n" + S.item(V, rx) + "\n")
    # every named top-level constant of vm.rs (arms may refer to them)
    for m in re.finditer(r'^(?:pub(?:\([a-z]+\))? )?const [A-Z][A-Z0-9_]*: [^=;]+ = [^;]+;', S.read(V), re.M):
        parts.append("// ---- real const (vm.rs) ----\n" + m.group(0) + "\n")
    sh = S.strip_cfg_items(S.item(V, r'struct VmSharedReadonly \{'), 'ffi')
    parts.append("// ---- real (vm.rs), ffi-only fields dropped ----\n" + sh + "\n")
    th = S.drop_fields(S.item(V, r'pub struct VmGreenThread \{'), ['new_threads_sender'])
    parts.append("// ---- real (vm.rs), field new_threads_sender dropped ----\n" + th + "\n")
    with open(os.path.join(HERE, 'spec.rs')) as f:
        parts.append(f.read())
    if stubs:
        with open(os.path.join(HERE, 'stubs.rs')) as f:
            st = f.read()
        if stubs == 'value':
            # only the stand-ins on Value / CallData (used by the unit that proves the thread helpers themselves)
            st = st[:st.index('impl VmGreenThread {')]
        parts.append(st)
    for p in extra_spec:
        with open(p) as f:
            parts.append(f.read())
    return ''.join(parts)


EPILOGUE = "\n} // verus!\nfn main() {}\n"


def strip_vis(text):
    """R0: drop `pub` / `pub(crate)` qualifiers (single-file crate: visibility has no
    semantic content, and Verus forbids private fields in public specs)."""
    return re.subn(r'^(\s*)pub(?:\([a-z]+\))? (?=(?:unsafe |const )?(?:fn|struct|enum|type|const)\b)', r'\1', text, flags=re.M)


# ---- rewrite rules applied to arm bodies for Verus (R2, R3) --------------------

R2a = re.compile(r'Some\(\s*self\s*\.make_error\(([^;]*?)\)\s*\.into\(\),?\s*\)', re.S)
R2b = re.compile(r'Some\(Box::new\(\s*self\.make_error\(([^;]*?)\),?\s*\)\)', re.S)


def apply_R2(body):
    body, k1 = R2a.subn(r'Some(self.make_error_boxed(\1))', body)
    body, k2 = R2b.subn(r'Some(self.make_error_boxed(\1))', body)
    return body, k1 + k2


def apply_R3(body, kind):
    """self.store_offset_or_top(d, E) -> self.store_offset_or_top_<kind>(d, E).  A wrong
    kind cannot pass silently: the typed stand-in takes E at that Rust type."""
    return re.subn(r'self\.store_offset_or_top\(', 'self.store_offset_or_top_%s(' % kind, body)


def lift(arm, contract, ret_name='cont'):
    """Splice a contract between the signature and the body of a lifted arm."""
    sig = arm['sig'].replace('-> bool', '-> (%s: bool)' % ret_name)
    return "    %s\n%s    {%s    true\n    }\n" % (sig, contract, arm['body'])


def stub_contract(name):
    """requires/ensures text of the stand-in `fn name` in stubs.rs (so that the unit that
    proves the real function uses exactly the contract the other units assume)."""
    with open(os.path.join(HERE, 'stubs.rs')) as f:
        t = f.read()
    m = re.search(r'fn %s\b[^\n]*\n((?:\s+(?:requires|ensures)[^\{]*?))\{ unimplemented!\(\) \}' % re.escape(name), t, re.S)
    if not m:
        raise S.SliceError("stub contract for %s not found" % name)
    return m.group(1).rstrip() + "\n"


def verify_isolating(build, names, scratch, fname, max_rounds=6):
    """Run Verus on build(exclude).  When rustc/Verus rejects the FILE because of one unit function
    (compile error, unsupported construct) no per-function result exists; the function the error
    points into is excluded (it becomes UNDECIDED: outside the verifier's reach) and Verus is
    re-run, so that one arm does not hide the verdicts on the others.
    Returns (text, verus_result, excluded: {name: reason})."""
    import engine as E
    excluded = {}
    while True:
        text = build(set(excluded))
        path = scratch.file(fname, text)
        try:
            res = E.run_verus(path)
            if res['functions']:
                return text, res, excluded
            errs = res['errors']
        except E.Undecided as ex:
            errs = []
            for b in re.split(r'\n(?=error)', str(ex)):
                m = re.search(r'-->\s+[^:\n]+:(\d+):(\d+)', b)
                if b.startswith('error') and m:
                    errs.append(dict(message=b.split("\n")[0], line=int(m.group(1)), block=b[:800]))
            if not errs:
                raise
        lines = E.fn_line_ranges(text)
        blamed = None
        for e in errs:
            ln = e.get('line')
            fn = lines[ln - 1] if ln and ln <= len(lines) else None
            if fn:
                short = fn[4:] if fn.startswith('arm_') else fn
                if short in names and short not in excluded:
                    blamed = (short, e['message'][:300])
                    break
        if not blamed or len(excluded) >= max_rounds:
            raise E.Undecided("verus rejects the assembled file and the error cannot be attributed to one unit function:\n"
                              + "\n".join(e['message'] for e in errs[:5]))
        excluded[blamed[0]] = "outside the verifier's reach: " + blamed[1]
