// ---------------------------------------------------------------------------
// Hand-written specification vocabulary for the VM (Verus).  Everything in this
// file is ghost (spec/proof) or a *contract-only* stand-in (external_body) for a
// real helper whose body is verified elsewhere (unit U4, Kani, on the real text).
// The executable arm bodies that are verified against these contracts are NOT in
// this file: they are cut from /repo/abra_core/src/vm.rs on every run.
// ---------------------------------------------------------------------------

// ---- value encoding (abstract; the round trips are discharged by Kani, U4 enc.*) ----
uninterp spec fn val_int(n: i64) -> Value;
uninterp spec fn int_of(v: Value) -> i64;
uninterp spec fn val_bool(b: bool) -> Value;
uninterp spec fn bool_of(v: Value) -> bool;
uninterp spec fn val_float(f: f64) -> Value;
uninterp spec fn float_of(v: Value) -> f64;
uninterp spec fn val_addr(a: ProgramCounter) -> Value;
uninterp spec fn val_sptr(p: *mut StringObject) -> Value;   // From<*mut StringObject> for Value

spec fn tag_of(v: Value) -> ValueTag { v.1 }

// ASSUMED (discharged by Kani obligations U4.enc.int_roundtrip / bool_roundtrip):
broadcast axiom fn axiom_val_int(n: i64)
    ensures #[trigger] tag_of(val_int(n)) == ValueTag::Int, int_of(val_int(n)) == n;
broadcast axiom fn axiom_val_bool(b: bool)
    ensures #[trigger] tag_of(val_bool(b)) == ValueTag::Bool, bool_of(val_bool(b)) == b;
broadcast axiom fn axiom_val_int_inj(v: Value)
    ensures tag_of(v) == ValueTag::Int ==> #[trigger] val_int(int_of(v)) == v;

// ---- register operands -------------------------------------------------------
spec fn reg_top(arg: u16) -> bool { arg >= 0x8000 }
spec fn reg_off(arg: u16) -> int {
    let low = (arg % 0x8000) as int;
    if low >= 0x4000 { low - 0x8000 } else { low }
}
spec fn reg_ok(s: Seq<Value>, base: int, arg: u16) -> bool {
    if reg_top(arg) { s.len() > 0 } else { 0 <= base + reg_off(arg) < s.len() }
}
spec fn reg_val(s: Seq<Value>, base: int, arg: u16) -> Value {
    if reg_top(arg) { s.last() } else { s[base + reg_off(arg)] }
}
spec fn reg_after_load(s: Seq<Value>, arg: u16) -> Seq<Value> {
    if reg_top(arg) { s.drop_last() } else { s }
}
spec fn reg_store_ok(s: Seq<Value>, base: int, arg: u16) -> bool {
    reg_top(arg) || 0 <= base + reg_off(arg) < s.len()
}
spec fn reg_after_store(s: Seq<Value>, base: int, arg: u16, v: Value) -> Seq<Value> {
    if reg_top(arg) { s.push(v) } else { s.update(base + reg_off(arg), v) }
}

// ---- frames -------------------------------------------------------------------
// everything except value_stack is unchanged
spec fn frame_stack(a: VmGreenThread, b: VmGreenThread) -> bool {
    &&& a.pc == b.pc
    &&& a.stack_base == b.stack_base
    &&& a.call_stack@ == b.call_stack@
    &&& a.heap_list@ == b.heap_list@
    &&& a.gray_stack@ == b.gray_stack@
    &&& a.gc_state == b.gc_state
    &&& a.gc_visited == b.gc_visited
    &&& a.heap_size == b.heap_size
    &&& a.gc_debt == b.gc_debt
    &&& a.last_gc_heap_size == b.last_gc_heap_size
    &&& a.pending_host_func == b.pending_host_func
    &&& a.error == b.error
    &&& a.pending_ffi_call == b.pending_ffi_call
    &&& a.done == b.done
    &&& a.string_op_index1 == b.string_op_index1
    &&& a.string_op_index2 == b.string_op_index2
    &&& a.string_operand1 == b.string_operand1
    &&& a.string_operand2 == b.string_operand2
    &&& a.concat_string_builder@ == b.concat_string_builder@
    &&& a.is_main == b.is_main
    &&& a.id == b.id
    &&& a.shared == b.shared
}
// everything except value_stack and error is unchanged
spec fn frame_stack_err(a: VmGreenThread, b: VmGreenThread) -> bool {
    &&& a.pc == b.pc
    &&& a.stack_base == b.stack_base
    &&& a.call_stack@ == b.call_stack@
    &&& a.heap_list@ == b.heap_list@
    &&& a.gray_stack@ == b.gray_stack@
    &&& a.gc_state == b.gc_state
    &&& a.gc_visited == b.gc_visited
    &&& a.heap_size == b.heap_size
    &&& a.gc_debt == b.gc_debt
    &&& a.last_gc_heap_size == b.last_gc_heap_size
    &&& a.pending_host_func == b.pending_host_func
    &&& a.pending_ffi_call == b.pending_ffi_call
    &&& a.done == b.done
    &&& a.string_op_index1 == b.string_op_index1
    &&& a.string_op_index2 == b.string_op_index2
    &&& a.string_operand1 == b.string_operand1
    &&& a.string_operand2 == b.string_operand2
    &&& a.concat_string_builder@ == b.concat_string_builder@
    &&& a.is_main == b.is_main
    &&& a.id == b.id
    &&& a.shared == b.shared
}

// the documented runtime errors, as a spec-level classification of VmErrorKind
enum ErrK { Overflow, DivZero, OutOfBounds, PanicMsg, Other }
spec fn errk(k: VmErrorKind) -> ErrK {
    match k {
        VmErrorKind::IntegerOverflowUnderflow => ErrK::Overflow,
        VmErrorKind::DivisionByZero => ErrK::DivZero,
        VmErrorKind::ArrayOutOfBounds => ErrK::OutOfBounds,
        VmErrorKind::Panic(_) => ErrK::PanicMsg,
        _ => ErrK::Other,
    }
}
spec fn has_error(t: VmGreenThread, k: ErrK) -> bool {
    t.error is Some && errk(t.error->0.kind) == k
}

