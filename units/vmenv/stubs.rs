// Contract-only stand-ins (external_body) for real helpers of vm.rs.  The contracts of
// load_offset_or_top / store_offset_or_top_val / pop / top are PROVED on the real text by unit
// u4v_stack (Verus, unbounded) which reads the requires/ensures from THIS file.
// ---- contract-only stand-ins for real helpers ---------------------------------
impl Value {
    // real: vm.rs Value::get_int (check_type + `self.0 as AbraInt`); contract proved by Kani U4.enc.get_int
    #[verifier::external_body]
    pub fn get_int(&self, _vm: &VmGreenThread) -> (r: AbraInt)
        requires tag_of(*self) == ValueTag::Int,
        ensures r == int_of(*self),
    { unimplemented!() }

    #[verifier::external_body]
    pub fn get_bool(&self, _vm: &VmGreenThread) -> (r: bool)
        requires tag_of(*self) == ValueTag::Bool,
        ensures r == bool_of(*self),
    { unimplemented!() }
}

// real: CallData::{get_nargs,get_addr} (bit fields; round trip with CallData::new proved by Kani U4 enc.calldata)
uninterp spec fn cd_nargs(c: CallData) -> u32;
uninterp spec fn cd_addr(c: CallData) -> u32;
impl CallData {
    #[verifier::external_body]
    fn get_addr(&self) -> (r: u32) ensures r == cd_addr(*self) { unimplemented!() }
    #[verifier::external_body]
    fn get_nargs(&self) -> (r: u32) ensures r == cd_nargs(*self) { unimplemented!() }
}

impl VmGreenThread {
    // real: vm.rs VmGreenThread::load_offset_or_top; contract proved by Kani U4.stack.load_offset_or_top
    #[verifier::external_body]
    pub fn load_offset_or_top(&mut self, arg: u16) -> (r: Value)
        requires reg_ok(old(self).value_stack@, old(self).stack_base as int, arg),
        ensures
            r == reg_val(old(self).value_stack@, old(self).stack_base as int, arg),
            final(self).value_stack@ == reg_after_load(old(self).value_stack@, arg),
            frame_stack(*old(self), *final(self)),
    { unimplemented!() }

    // real: vm.rs VmGreenThread::store_offset_or_top with val: AbraInt (R3 typed store)
    #[verifier::external_body]
    pub fn store_offset_or_top_int(&mut self, arg: u16, val: AbraInt)
        requires reg_store_ok(old(self).value_stack@, old(self).stack_base as int, arg),
        ensures
            final(self).value_stack@ == reg_after_store(old(self).value_stack@, old(self).stack_base as int, arg, val_int(val)),
            tag_of(val_int(val)) == ValueTag::Int, int_of(val_int(val)) == val,  // = axiom_val_int
            frame_stack(*old(self), *final(self)),
    { unimplemented!() }

    #[verifier::external_body]
    pub fn store_offset_or_top_bool(&mut self, arg: u16, val: bool)
        requires reg_store_ok(old(self).value_stack@, old(self).stack_base as int, arg),
        ensures
            final(self).value_stack@ == reg_after_store(old(self).value_stack@, old(self).stack_base as int, arg, val_bool(val)),
            tag_of(val_bool(val)) == ValueTag::Bool, bool_of(val_bool(val)) == val,  // = axiom_val_bool
            frame_stack(*old(self), *final(self)),
    { unimplemented!() }

    #[verifier::external_body]
    pub fn store_offset_or_top_val(&mut self, arg: u16, val: Value)
        requires reg_store_ok(old(self).value_stack@, old(self).stack_base as int, arg),
        ensures
            final(self).value_stack@ == reg_after_store(old(self).value_stack@, old(self).stack_base as int, arg, val),
            frame_stack(*old(self), *final(self)),
    { unimplemented!() }

    // real: vm.rs VmGreenThread::pop
    #[verifier::external_body]
    pub fn pop(&mut self) -> (r: Value)
        requires old(self).value_stack@.len() > 0,
        ensures
            r == old(self).value_stack@.last(),
            final(self).value_stack@ == old(self).value_stack@.drop_last(),
            frame_stack(*old(self), *final(self)),
    { unimplemented!() }

    // real: vm.rs VmGreenThread::top
    #[verifier::external_body]
    pub fn top(&self) -> (r: Value)
        requires self.value_stack@.len() > 0,
        ensures r == self.value_stack@.last(),
    { unimplemented!() }

    // real: vm.rs VmGreenThread::push with x: Value (R3 typed)
    #[verifier::external_body]
    pub fn push_val(&mut self, x: Value)
        ensures
            final(self).value_stack@ == old(self).value_stack@.push(x),
            frame_stack(*old(self), *final(self)),
    { unimplemented!() }

    // real: vm.rs VmGreenThread::set_top with val: Value (R3 typed)
    #[verifier::external_body]
    pub fn set_top_val(&mut self, val: Value)
        requires old(self).value_stack@.len() > 0,
        ensures
            final(self).value_stack@ == old(self).value_stack@.update(old(self).value_stack@.len() - 1, val),
            frame_stack(*old(self), *final(self)),
    { unimplemented!() }

    // real: vm.rs VmGreenThread::load_offset
    #[verifier::external_body]
    pub fn load_offset(&self, offset: i16) -> (r: Value)
        requires 0 <= self.stack_base + offset < self.value_stack@.len(),
                 self.value_stack@.len() <= usize::MAX,   // true of every Vec; vstd only learns it from an exec len() call
        ensures r == self.value_stack@[self.stack_base + offset],
    { unimplemented!() }

    // real: vm.rs VmGreenThread::store_offset with v: Value (R3 typed)
    #[verifier::external_body]
    pub fn store_offset_val(&mut self, offset: i16, v: Value)
        requires 0 <= old(self).stack_base + offset < old(self).value_stack@.len(),
        ensures
            final(self).value_stack@ == old(self).value_stack@.update(old(self).stack_base + offset, v),
            frame_stack(*old(self), *final(self)),
    { unimplemented!() }

    // real: vm.rs VmGreenThread::pop_bool = pop().get_bool(self)
    #[verifier::external_body]
    pub fn pop_bool(&mut self) -> (r: bool)
        requires old(self).value_stack@.len() > 0, tag_of(old(self).value_stack@.last()) == ValueTag::Bool,
        ensures
            r == bool_of(old(self).value_stack@.last()),
            final(self).value_stack@ == old(self).value_stack@.drop_last(),
            frame_stack(*old(self), *final(self)),
    { unimplemented!() }

    // real: push(x) with x of a concrete type (R3 typed): push_val o From
    #[verifier::external_body]
    pub fn push_int(&mut self, n: AbraInt)
        ensures final(self).value_stack@ == old(self).value_stack@.push(val_int(n)), frame_stack(*old(self), *final(self)),
    { unimplemented!() }
    #[verifier::external_body]
    pub fn push_float(&mut self, f: AbraFloat)
        ensures final(self).value_stack@ == old(self).value_stack@.push(val_float(f)), frame_stack(*old(self), *final(self)),
    { unimplemented!() }
    #[verifier::external_body]
    pub fn push_bool(&mut self, b: bool)
        ensures final(self).value_stack@ == old(self).value_stack@.push(val_bool(b)), frame_stack(*old(self), *final(self)),
    { unimplemented!() }
    #[verifier::external_body]
    pub fn push_addr(&mut self, a: ProgramCounter)
        ensures final(self).value_stack@ == old(self).value_stack@.push(val_addr(a)), frame_stack(*old(self), *final(self)),
    { unimplemented!() }
    #[verifier::external_body]
    pub fn push_sstr(&mut self, p: *mut StringObject)
        ensures final(self).value_stack@ == old(self).value_stack@.push(val_sptr(p)), frame_stack(*old(self), *final(self)),
    { unimplemented!() }
    #[verifier::external_body]
    pub fn store_offset_int(&mut self, offset: i16, v: AbraInt)
        requires 0 <= old(self).stack_base + offset < old(self).value_stack@.len(),
        ensures
            final(self).value_stack@ == old(self).value_stack@.update(old(self).stack_base + offset, val_int(v)),
            frame_stack(*old(self), *final(self)),
    { unimplemented!() }

    // real: vm.rs VmGreenThread::make_error followed by `.into()` / Box::new (R2)
    #[verifier::external_body]
    pub fn make_error_boxed(&self, kind: VmErrorKind) -> (r: Box<VmError>)
        ensures r.kind == kind,
    { unimplemented!() }
}
