"""Generic driver for Verus units made of lifted step() arms."""
import os
import re
import slicer as S
import engine as E
from units import vmenv

V = 'abra_core/src/vm.rs'


def canary_text(text):
    """every arm's ensures replaced by `false` (vacuity guard)"""
    out = []
    lines = text.split("\n")
    i = 0
    in_arm = False
    while i < len(lines):
        ln = lines[i]
        if re.match(r'\s*fn arm_\w+\(', ln):
            in_arm = True
        if in_arm and re.match(r'\s*ensures\b', ln):
            out.append("        ensures false,")
            i += 1
            # skip continuation lines of the ensures clause up to the body's opening brace line "    {"
            while i < len(lines) and not re.match(r'    \{', lines[i]):
                i += 1
            in_arm = False
            continue
        out.append(ln)
        i += 1
    return "\n".join(out)


def run_arm_unit(unit, tag, spec_files, arms, default_props, id_prefix=None, extra_assumptions=(),
                 extra_trusted=(), extra_items="", lemma_prefixes=("lemma_",), lemma_props=None):
    """arms: name -> dict(contract=str, store=<kind|None>, props=[..], start_proof=str|None,
                          rewrites=[(regex, repl, expected_count|None)], clause='post')"""
    want = os.environ.get("ABRA_VERIF_PROP")
    if want:
        arms = {k: v for k, v in arms.items() if want in v.get('props', default_props)}
        if not arms:
            return [], dict(assumptions=[], trusted_base=[], checker_cmds=[], notes={})
    sc = E.Scratch(tag)
    try:
        counts = {'R2': 0, 'R3': 0, 'custom': 0, 'proof_splices': 0}
        undecided_arms = {}
        meta = {}

        def build(exclude):
            text = vmenv.prelude(spec_files) + extra_items + "\nimpl VmGreenThread {\n"
            for k in counts:
                counts[k] = 0
            for name, o in arms.items():
                if name in exclude:
                    continue
                try:
                    arm = S.step_arm(name)
                    body = arm['body']
                    body, k = vmenv.apply_R2(body)
                    counts['R2'] += k
                    if o.get('store'):
                        body, k = vmenv.apply_R3(body, o['store'])
                        counts['R3'] += k
                    for rx, repl, expect in o.get('rewrites', []):
                        body, k = re.subn(rx, repl, body, flags=re.S)
                        counts['custom'] += k
                        if expect is not None and k != expect:
                            raise S.SliceError("arm %s: rewrite /%s/ applied %d times, expected %d" % (name, rx, k, expect))
                    for anchor, ptext in o.get('proof_at', []):
                        # ghost-only splice after one exact statement of the real text (asserts are CHECKED by Verus, never assumed)
                        if re.search(r'\b(assume|admit)\s*\(', ptext):
                            raise S.SliceError("arm %s: proof splice contains assume/admit" % name)
                        if body.count(anchor) != 1:
                            raise S.SliceError("arm %s: proof anchor %r found %d times" % (name, anchor, body.count(anchor)))
                        body = body.replace(anchor, anchor + "\n                proof { %s }" % ptext)
                        counts['proof_splices'] += 1
                    if o.get('start_proof'):
                        body = "\n                proof { %s }" % o['start_proof'] + body
                        counts['proof_splices'] += 1
                except S.SliceError as ex:
                    undecided_arms[name] = str(ex)
                    continue
                a2 = dict(arm)
                a2['body'] = body
                if o.get('extra_params'):
                    # R8: a local bound by an unsafe pointer dereference becomes a parameter of the lifted arm
                    a2['sig'] = a2['sig'].replace(') -> bool', ', %s) -> bool' % o['extra_params'])
                text += "// ---- real arm Instr::%s (vm.rs step), lifted ----\n" % name
                text += vmenv.lift(a2, o['contract'])
                meta[name] = dict(contract=o['contract'], sha=S.sha(arm['raw']))
            text += "}\n" + vmenv.EPILOGUE
            text, k = vmenv.strip_vis(text)
            counts['R0'] = k
            return text

        text, res, excluded = vmenv.verify_isolating(build, set(arms), sc, tag + ".rs")
        undecided_arms.update(excluded)
        lines = E.fn_line_ranges(text)
        errs = {}
        for e in res['errors']:
            fn = lines[e['line'] - 1] if e['line'] and e['line'] <= len(lines) else None
            errs.setdefault(fn, []).append(e['block'])
        cres = E.run_verus(sc.file(tag + "_canary.rs", canary_text(text)))
        for name in undecided_arms:
            meta.setdefault(name, dict(contract=arms[name]['contract'], sha=""))
        obs = []
        vac = []
        for name, o in arms.items():
            props = o.get('props', default_props)
            oid = "%s.vm.%s.%s" % (id_prefix or props[0], name, o.get('clause', 'post'))
            fn = "VmGreenThread::step arm Instr::" + name
            if name in undecided_arms:
                obs.append(E.Obligation(oid, props, unit, fn, "verus/z3", E.UNDECIDED, undecided_arms[name], 0, V, "", None, o['contract']))
                continue
            f = [v for k, v in res['functions'].items() if k.endswith("::arm_" + name)]
            c = [v for k, v in cres['functions'].items() if k.endswith("::arm_" + name)]
            if not f:
                st, detail, t, rl = E.UNDECIDED, "function not reported by verus", 0, None
            else:
                t, rl = f[0]['time_s'], f[0]['rlimit']
                detail = "\n".join(errs.get("arm_" + name, []))
                if f[0]['success']:
                    st = E.DISCHARGED
                else:
                    st = E.UNDECIDED if ("rlimit" in detail.lower() and "postcondition" not in detail and "precondition" not in detail) else E.FAILED
            if st == E.DISCHARGED and (not c or c[0]['success']):
                vac.append(name)
                st, detail = E.UNDECIDED, "vacuity canary: arm verifies `ensures false` (contradictory precondition)"
            obs.append(E.Obligation(oid, props, unit, fn, "verus/z3", st, detail, t, V, meta[name]['sha'], None, meta[name]['contract'], rlimit=rl))
        for k, v in res['functions'].items():
            short = k.split("::")[-1]
            if any(short.startswith(p) for p in lemma_prefixes) and lemma_props:
                obs.append(E.Obligation("%s.lemma.%s" % (lemma_props[0], short), lemma_props, unit, short, "verus/z3",
                                        E.DISCHARGED if v['success'] else E.FAILED, "\n".join(errs.get(short, [])), v['time_s'],
                                        "verif/units", "", None, "", rlimit=v['rlimit']))
        info = dict(
            assumptions=vmenv.ASSUMED + list(extra_assumptions),
            trusted_base=["verus 0.2026.09.13 + z3", "tools/slicer.py (arm lifting)", "rewrite rules R0, R2, R3"] + list(extra_trusted) + vmenv.DROPPED,
            checker_cmds=[res['cmd'].replace(sc.path, "$SCRATCH")],
            notes=dict(rewrites=counts, canary_verified=vac, verus_wall_s=round(res['wall_s'], 2)))
        return obs, info
    finally:
        sc.cleanup()
