// U4: value encoding, register/stack helpers and control/structure arms.
// Everything exercised here is the REAL text of vm.rs (whole file compiled as this
// module) — harnesses only construct states, call, and assert contracts.
#[cfg(kani)]
mod u4 {
    use super::hs::*;
    use super::*;

    // ------------------------------------------------------------- encodings (complete)
    // These discharge the axioms assumed by the Verus units (vmenv/spec.rs).
    #[kani::proof]
    fn enc_int_roundtrip() {
        let t = mk_thread(mk_shared(vec![], vec![]));
        let n: i64 = kani::any();
        let v = Value::from(n);
        assert!(v.1 == ValueTag::Int);
        assert!(v.get_int(&t) == n);
        // injectivity on the tag class: an Int value re-encodes to itself
        let w = Value(kani::any(), ValueTag::Int);
        assert!(Value::from(w.get_int(&t)) == w);
        kani::cover!(true, "reachable");
        std::mem::forget(t);
    }
    #[kani::proof]
    fn enc_bool_roundtrip() {
        let t = mk_thread(mk_shared(vec![], vec![]));
        let b: bool = kani::any();
        let v = Value::from(b);
        assert!(v.1 == ValueTag::Bool);
        assert!(v.get_bool(&t) == b);
        kani::cover!(true, "reachable");
        std::mem::forget(t);
    }
    #[kani::proof]
    fn enc_float_roundtrip() {
        let t = mk_thread(mk_shared(vec![], vec![]));
        let bits: u64 = kani::any();
        let f = f64::from_bits(bits);
        let v = Value::from(f);
        assert!(v.1 == ValueTag::Float);
        assert!(v.get_float(&t).to_bits() == f.to_bits());
        kani::cover!(true, "reachable");
        std::mem::forget(t);
    }
    #[kani::proof]
    fn enc_addr_roundtrip() {
        let t = mk_thread(mk_shared(vec![], vec![]));
        let a: u32 = kani::any();
        let v = Value::from(ProgramCounter(a));
        assert!(v.1 == ValueTag::Addr);
        assert!(v.get_addr(&t).0 == a);
        kani::cover!(true, "reachable");
        std::mem::forget(t);
    }
    // a value read at the wrong tag is an internal fault (debug builds): the tag
    // precondition of every get_* is necessary, not just sufficient
    #[kani::proof]
    #[kani::should_panic]
    fn enc_get_int_wrong_tag_faults() {
        let t = mk_thread(mk_shared(vec![], vec![]));
        let tag = any_tag();
        kani::assume(tag != ValueTag::Int);
        let v = Value(kani::any(), tag);
        let _ = v.get_int(&t);
    }
    #[kani::proof]
    fn enc_calldata_roundtrip() {
        let nargs: u32 = kani::any();
        let addr: u32 = kani::any();
        kani::assume(nargs < 32);
        kani::assume(addr <= 0x07ff_ffff);
        let c = CallData::new(nargs, addr);
        assert!(c.get_nargs() == nargs);
        assert!(c.get_addr() == addr);
        kani::cover!(true, "reachable");
    }
    #[kani::proof]
    fn enc_is_pointer_table() {
        let tag = any_tag();
        let want = matches!(tag, ValueTag::Struct | ValueTag::Array | ValueTag::Variant | ValueTag::String | ValueTag::Channel);
        assert!(tag.is_pointer() == want);
    }

    // (stack/register helpers and the pure stack/jump/constant arms are proved for stacks of ANY
    //  length by the Verus units u4v_stack and u4a_ctrl; what remains here needs real heap objects
    //  or checks the real `impl Into<Value>` plumbing on concrete shapes)
    #[kani::proof]
    fn stack_typed_store_is_from() {
        // the typed stores of the Verus stand-ins are store_offset_or_top / push composed with From
        let mut t = mk_thread_with(vec![any_scalar()], 0, vec![], vec![]);
        let x: i64 = kani::any();
        t.store_offset_or_top(TOP, x);
        assert!(t.value_stack[1] == Value::from(x));
        let b: bool = kani::any();
        t.store_offset_or_top(TOP, b);
        assert!(t.value_stack[2] == Value::from(b));
        let f = f64::from_bits(kani::any());
        t.push(f);
        assert!(t.value_stack[3] == Value::from(f));
        t.store_offset(0, x);
        assert!(t.value_stack[0] == Value::from(x));
        kani::cover!(true, "reachable");
        std::mem::forget(t);
    }

    #[kani::proof]
    #[kani::unwind(5)]
    fn arm_push_nil() {
        let marker = any_scalar();
        let mut t = mk_thread_with(vec![marker], 0, vec![], vec![]);
        assert!(t.arm_PushNil(0));
        assert!(t.value_stack.len() == 1);
        assert!(t.arm_PushNil(3));
        assert!(t.value_stack.len() == 4 && t.value_stack[0] == marker);
        std::mem::forget(t);
    }

    // ------------------------------------------------------------- calls
    // (Call/Return/ReturnVoid are also proved for arbitrary stacks in u4a_ctrl; this is the
    //  end-to-end composition on the real helpers, one harness per concrete shape)
    fn arm_call_return(nargs: u32, pre: usize, extra: usize) {
        // caller has `pre` values, pushes nargs arguments, calls; callee leaves `extra`
        // operands plus the return value; Return must restore the caller's stack with the
        // result in place of the arguments, whatever `extra` is.
        let mut stack = Vec::new();
        let marker = any_scalar();
        if pre == 1 {
            stack.push(marker);
        }
        let mut i = 0;
        while i < 2 {
            if (i as u32) < nargs {
                stack.push(any_scalar());
            }
            i += 1;
        }
        let base0: usize = 0;
        let mut t = mk_thread_with(stack, base0, vec![], vec![]);
        let pc0: u32 = kani::any();
        let target: u32 = kani::any();
        kani::assume(target <= 0x07ff_ffff);
        t.pc = ProgramCounter(pc0);
        assert!(t.arm_Call(CallData::new(nargs, target)));
        assert!(t.pc.0 == target, "Call jumps to the callee");
        assert!(t.stack_base == pre + nargs as usize, "callee frame starts above the arguments");
        assert!(t.call_stack.len() == 1 && t.call_stack[0].pc.0 == pc0 && t.call_stack[0].stack_base == base0 && t.call_stack[0].nargs == nargs);
        let mut j = 0;
        while j < 2 {
            if j < extra {
                t.push(any_scalar());
            }
            j += 1;
        }
        let ret = any_scalar();
        t.push(ret);
        assert!(t.arm_Return(nargs));
        assert!(t.pc.0 == pc0, "Return resumes at the saved pc");
        assert!(t.stack_base == base0, "Return restores the caller's frame base");
        assert!(t.call_stack.len() == 0);
        assert!(t.value_stack.len() == pre + 1, "arguments and callee operands are gone, one result remains");
        assert!(t.value_stack[pre] == ret, "the result is the callee's top of stack");
        if pre == 1 {
            assert!(t.value_stack[0] == marker, "caller's operands untouched");
        }
        kani::cover!(true, "reachable");
        std::mem::forget(t);
    }
    #[kani::proof]
    #[kani::unwind(8)]
    fn arm_call_return_a() { arm_call_return(0, 0, 0) }
    #[kani::proof]
    #[kani::unwind(8)]
    fn arm_call_return_b() { arm_call_return(2, 1, 2) }
    #[kani::proof]
    #[kani::unwind(8)]
    fn arm_call_return_c() { arm_call_return(1, 1, 0) }

    fn arm_call_return_void(nargs: u32, extra: usize) {
        let marker = any_scalar();
        let mut stack = vec![marker];
        let mut i = 0;
        while i < 2 {
            if (i as u32) < nargs {
                stack.push(any_scalar());
            }
            i += 1;
        }
        let mut t = mk_thread_with(stack, 0, vec![], vec![]);
        let pc0: u32 = kani::any();
        t.pc = ProgramCounter(pc0);
        assert!(t.arm_Call(CallData::new(nargs, 5)));
        let mut j = 0;
        while j < 2 {
            if j < extra {
                t.push(any_scalar());
            }
            j += 1;
        }
        assert!(t.arm_ReturnVoid());
        assert!(t.pc.0 == pc0 && t.stack_base == 0 && t.call_stack.len() == 0);
        assert!(t.value_stack.len() == 1 && t.value_stack[0] == marker, "void return leaves exactly the caller's operands");
        kani::cover!(true, "reachable");
        std::mem::forget(t);
    }
    #[kani::proof]
    #[kani::unwind(8)]
    fn arm_call_return_void_a() { arm_call_return_void(0, 0) }
    #[kani::proof]
    #[kani::unwind(8)]
    fn arm_call_return_void_b() { arm_call_return_void(2, 2) }

    // ------------------------------------------------------------- structures
    fn arm_construct_deconstruct_struct(n: u16) {
        let marker = any_scalar();
        let f0 = any_scalar();
        let f1 = any_scalar();
        let f2 = any_scalar();
        let mut stack = vec![marker];
        if n >= 1 { stack.push(f0); }
        if n >= 2 { stack.push(f1); }
        if n >= 3 { stack.push(f2); }
        let mut t = mk_thread_with(stack, 0, vec![], vec![]);
        assert!(t.arm_ConstructStruct(n));
        assert!(t.value_stack.len() == 2 && t.value_stack[0] == marker);
        let s = t.value_stack[1];
        assert!(s.1 == ValueTag::Struct);
        assert!(t.heap_list.len() == 1);
        // field i of the struct is the i-th pushed value
        if n >= 1 {
            t.push(s);
            assert!(t.arm_GetField(0, TOP));
            assert!(t.pop() == f0);
        }
        if n >= 3 {
            t.push(s);
            assert!(t.arm_GetField(2, TOP));
            assert!(t.pop() == f2);
        }
        // DeconstructStruct pushes the fields so that field 0 ends on top
        assert!(t.arm_DeconstructStruct());
        assert!(t.value_stack.len() == 1 + n as usize);
        if n >= 1 { assert!(t.value_stack[n as usize] == f0); }
        if n >= 2 { assert!(t.value_stack[n as usize - 1] == f1); }
        if n >= 3 { assert!(t.value_stack[n as usize - 2] == f2); }
        assert!(t.value_stack[0] == marker);
        kani::cover!(true, "reachable");
        std::mem::forget(t);
    }
    #[kani::proof]
    #[kani::unwind(8)]
    fn arm_construct_deconstruct_struct_0() { arm_construct_deconstruct_struct(0) }
    #[kani::proof]
    #[kani::unwind(8)]
    fn arm_construct_deconstruct_struct_1() { arm_construct_deconstruct_struct(1) }
    #[kani::proof]
    #[kani::unwind(8)]
    fn arm_construct_deconstruct_struct_3() { arm_construct_deconstruct_struct(3) }

    #[kani::proof]
    #[kani::unwind(8)]
    fn arm_set_field() {
        let f0 = any_scalar();
        let f1 = any_scalar();
        let v = any_scalar();
        let idx: u16 = kani::any();
        kani::assume(idx < 2);
        let mut t = mk_thread_with(vec![f0, f1], 0, vec![], vec![]);
        assert!(t.arm_ConstructStruct(2));
        let s = t.value_stack[0];
        // SetField(index, reg): struct fetched through reg (Top), then the rvalue popped
        t.push(v);
        t.push(s);
        assert!(t.arm_SetField(idx, TOP));
        assert!(t.value_stack.len() == 1, "SetField consumes the struct operand and the rvalue");
        t.push(s);
        assert!(t.arm_GetField(idx, TOP));
        assert!(t.pop() == v, "the written field reads back");
        t.push(s);
        assert!(t.arm_GetField(1 - idx, TOP));
        assert!(t.pop() == if idx == 0 { f1 } else { f0 }, "the other field is unchanged");
        std::mem::forget(t);
    }

    #[kani::proof]
    #[kani::unwind(8)]
    fn arm_variant() {
        let payload = any_scalar();
        let tag: u16 = kani::any();
        let marker = any_scalar();
        let mut t = mk_thread_with(vec![marker, payload], 0, vec![], vec![]);
        assert!(t.arm_ConstructVariant(tag));
        assert!(t.value_stack.len() == 2 && t.value_stack[1].1 == ValueTag::Variant && t.value_stack[0] == marker);
        assert!(t.arm_DeconstructVariant());
        assert!(t.value_stack.len() == 3, "payload then tag");
        assert!(t.value_stack[1] == payload);
        assert!(t.value_stack[2] == Value::from(tag as AbraInt));
        std::mem::forget(t);
    }

    fn arm_closure_call(ncap: u16) {
        // MakeClosure(n): [captures..., addr] -> closure struct {addr, captures...}? (layout from the
        // code: construct_struct(n+1) over the top n+1 values, field 0 must be the address)
        let cap0 = any_scalar();
        let cap1 = any_scalar();
        let addr: u32 = kani::any();
        let arg = any_scalar();
        let mut t = mk_thread_with(vec![arg], 0, vec![], vec![]);
        t.push(ProgramCounter(addr));
        if ncap >= 1 { t.push(cap0); }
        if ncap >= 2 { t.push(cap1); }
        assert!(t.arm_MakeClosure(ncap));
        assert!(t.value_stack.len() == 2 && t.value_stack[1].1 == ValueTag::Struct);
        let pc0: u32 = kani::any();
        t.pc = ProgramCounter(pc0);
        assert!(t.arm_CallFuncObj(1));
        assert!(t.pc.0 == addr, "jumps to the closure's code address");
        assert!(t.call_stack.len() == 1 && t.call_stack[0].pc.0 == pc0 && t.call_stack[0].nargs == 1);
        assert!(t.stack_base == 1, "frame base sits above the argument");
        assert!(t.value_stack.len() == 1 + ncap as usize, "captures are laid out as the first locals");
        if ncap >= 1 { assert!(t.value_stack[1] == cap0); }
        if ncap >= 2 { assert!(t.value_stack[2] == cap1); }
        assert!(t.value_stack[0] == arg);
        kani::cover!(true, "reachable");
        std::mem::forget(t);
    }
    #[kani::proof]
    #[kani::unwind(8)]
    fn arm_closure_call_0() { arm_closure_call(0) }
    #[kani::proof]
    #[kani::unwind(8)]
    fn arm_closure_call_2() { arm_closure_call(2) }

    // ------------------------------------------------------------- stop / host / panic
    #[kani::proof]
    fn arm_stop_hostfunc() {
        let mut t = mk_thread_with(vec![], 0, vec![], vec![]);
        let e: u16 = kani::any();
        assert!(!t.arm_HostFunc(e));
        assert!(t.pending_host_func == Some(e) && !t.done && t.error.is_none() && t.value_stack.len() == 0);
        t.clear_pending_host_func();
        assert!(!t.arm_Stop());
        assert!(t.done && t.error.is_none() && t.pending_host_func.is_none());
        std::mem::forget(t);
    }
}
