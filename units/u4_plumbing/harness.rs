// U4: value encoding, register/stack helpers and control/structure arms.
// Everything exercised here is the REAL text of vm.rs (whole file compiled as this
// module) — harnesses only construct states, call, and assert contracts.
#[cfg(kani)]
mod u4 {
    use super::hs::*;
    use super::*;

    // ------------------------------------------------------------- encodings (complete)
    // These discharge the axioms assumed by the Verus units (vmenv/spec.rs).
    #[kani::proof]
    fn enc_int_roundtrip() {
        let t = mk_thread(mk_shared(vec![], vec![]));
        let n: i64 = kani::any();
        let v = Value::from(n);
        assert!(v.1 == ValueTag::Int);
        assert!(v.get_int(&t) == n);
        // injectivity on the tag class: an Int value re-encodes to itself
        let w = Value(kani::any(), ValueTag::Int);
        assert!(Value::from(w.get_int(&t)) == w);
        kani::cover!(true, "reachable");
        std::mem::forget(t);
    }
    #[kani::proof]
    fn enc_bool_roundtrip() {
        let t = mk_thread(mk_shared(vec![], vec![]));
        let b: bool = kani::any();
        let v = Value::from(b);
        assert!(v.1 == ValueTag::Bool);
        assert!(v.get_bool(&t) == b);
        kani::cover!(true, "reachable");
        std::mem::forget(t);
    }
    #[kani::proof]
    fn enc_float_roundtrip() {
        let t = mk_thread(mk_shared(vec![], vec![]));
        let bits: u64 = kani::any();
        let f = f64::from_bits(bits);
        let v = Value::from(f);
        assert!(v.1 == ValueTag::Float);
        assert!(v.get_float(&t).to_bits() == f.to_bits());
        kani::cover!(true, "reachable");
        std::mem::forget(t);
    }
    #[kani::proof]
    fn enc_addr_roundtrip() {
        let t = mk_thread(mk_shared(vec![], vec![]));
        let a: u32 = kani::any();
        let v = Value::from(ProgramCounter(a));
        assert!(v.1 == ValueTag::Addr);
        assert!(v.get_addr(&t).0 == a);
        kani::cover!(true, "reachable");
        std::mem::forget(t);
    }
    // a value read at the wrong tag is an internal fault (debug builds): the tag
    // precondition of every get_* is necessary, not just sufficient
    #[kani::proof]
    #[kani::should_panic]
    fn enc_get_int_wrong_tag_faults() {
        let t = mk_thread(mk_shared(vec![], vec![]));
        let tag = any_tag();
        kani::assume(tag != ValueTag::Int);
        let v = Value(kani::any(), tag);
        let _ = v.get_int(&t);
    }
    #[kani::proof]
    fn enc_calldata_roundtrip() {
        let nargs: u32 = kani::any();
        let addr: u32 = kani::any();
        kani::assume(nargs < 32);
        kani::assume(addr <= 0x07ff_ffff);
        let c = CallData::new(nargs, addr);
        assert!(c.get_nargs() == nargs);
        assert!(c.get_addr() == addr);
        kani::cover!(true, "reachable");
    }
    #[kani::proof]
    fn enc_is_pointer_table() {
        let tag = any_tag();
        let want = matches!(tag, ValueTag::Struct | ValueTag::Array | ValueTag::Variant | ValueTag::String | ValueTag::Channel);
        assert!(tag.is_pointer() == want);
    }

    // ------------------------------------------------------------- stack helpers (bounded stack)
    const N: usize = 4;
    /// symbolic stack of symbolic length <= N: one allocation of N symbolic scalars,
    /// truncated to n (Value is Copy: truncate only sets the length).  Returns the
    /// vector, the N symbolic values (for comparison without cloning) and n.
    fn any_stack() -> (Vec<Value>, [Value; N], usize) {
        let vals = [any_scalar(), any_scalar(), any_scalar(), any_scalar()];
        let n: usize = kani::any();
        kani::assume(n <= N);
        let mut v = Vec::with_capacity(N + 4);
        v.extend_from_slice(&vals);
        v.truncate(n);
        (v, vals, n)
    }
    fn same_prefix(a: &Vec<Value>, b: &[Value; N], n: usize) -> bool {
        let mut i = 0;
        while i < N {
            if i < n && a[i] != b[i] {
                return false;
            }
            i += 1;
        }
        true
    }
    struct Snap {
        pc: u32,
        base: usize,
        calls: usize,
        heap: usize,
        gray: usize,
        err: bool,
        done: bool,
        host: Option<u16>,
        i1: usize,
        i2: usize,
        heap_size: usize,
    }
    fn snap(t: &VmGreenThread) -> Snap {
        Snap {
            pc: t.pc.0,
            base: t.stack_base,
            calls: t.call_stack.len(),
            heap: t.heap_list.len(),
            gray: t.gray_stack.len(),
            err: t.error.is_some(),
            done: t.done,
            host: t.pending_host_func,
            i1: t.string_op_index1,
            i2: t.string_op_index2,
            heap_size: t.heap_size,
        }
    }
    fn frame_ok(a: &Snap, t: &VmGreenThread) -> bool {
        let b = snap(t);
        a.pc == b.pc && a.base == b.base && a.calls == b.calls && a.heap == b.heap && a.gray == b.gray
            && a.err == b.err && a.done == b.done && a.host == b.host && a.i1 == b.i1 && a.i2 == b.i2
            && a.heap_size == b.heap_size
    }

    #[kani::proof]
    #[kani::unwind(7)]
    fn stack_load_offset_or_top() {
        let (stack, old, n) = any_stack();
        let base: usize = kani::any();
        kani::assume(base <= N + 2);
        let arg: u16 = kani::any();
        kani::assume(reg_ok(n, base, arg));
        let mut t = mk_thread_with(stack, base, vec![], vec![]);
        let s = snap(&t);
        let r = t.load_offset_or_top(arg);
        if reg_top(arg) {
            assert!(r == old[n - 1], "Top: returns the top value");
            assert!(t.value_stack.len() == n - 1, "Top: pops exactly one");
            assert!(same_prefix(&t.value_stack, &old, n - 1), "Top: rest unchanged");
        } else {
            assert!(r == old[reg_index(base, arg)], "Offset: returns the addressed local");
            assert!(t.value_stack.len() == n && same_prefix(&t.value_stack, &old, n), "Offset: stack unchanged");
        }
        assert!(frame_ok(&s, &t), "nothing else changes");
        kani::cover!(reg_top(arg), "top reachable");
        kani::cover!(!reg_top(arg) && reg_off(arg) < 0, "negative offset reachable");
        std::mem::forget(t);
    }

    #[kani::proof]
    #[kani::unwind(7)]
    fn stack_store_offset_or_top() {
        let (stack, old, n) = any_stack();
        let base: usize = kani::any();
        kani::assume(base <= N + 2);
        let arg: u16 = kani::any();
        kani::assume(reg_store_ok(n, base, arg));
        let v = any_scalar();
        let mut t = mk_thread_with(stack, base, vec![], vec![]);
        let s = snap(&t);
        t.store_offset_or_top(arg, v);
        if reg_top(arg) {
            assert!(t.value_stack.len() == n + 1, "Top: pushes exactly one");
            assert!(t.value_stack[n] == v, "Top: pushed value is v");
            assert!(same_prefix(&t.value_stack, &old, n), "Top: rest unchanged");
        } else {
            let k = reg_index(base, arg);
            assert!(t.value_stack.len() == n, "Offset: length unchanged");
            assert!(t.value_stack[k] == v, "Offset: slot updated");
            let mut i = 0;
            while i < N {
                if i < n && i != k {
                    assert!(t.value_stack[i] == old[i], "Offset: other slots unchanged");
                }
                i += 1;
            }
        }
        assert!(frame_ok(&s, &t), "nothing else changes");
        kani::cover!(reg_top(arg), "top reachable");
        kani::cover!(!reg_top(arg), "offset reachable");
        std::mem::forget(t);
    }

    #[kani::proof]
    #[kani::unwind(7)]
    fn stack_typed_store_is_from() {
        // the typed stores of the Verus stand-ins are store_offset_or_top ∘ From
        let (stack, _old, n) = any_stack();
        let mut t = mk_thread_with(stack, 0, vec![], vec![]);
        let x: i64 = kani::any();
        t.store_offset_or_top(TOP, x);
        assert!(t.value_stack[n] == Value::from(x));
        let b: bool = kani::any();
        t.store_offset_or_top(TOP, b);
        assert!(t.value_stack[n + 1] == Value::from(b));
        std::mem::forget(t);
    }

    #[kani::proof]
    #[kani::unwind(7)]
    fn stack_push_pop_top() {
        let (stack, old, n) = any_stack();
        let mut t = mk_thread_with(stack, 0, vec![], vec![]);
        let s = snap(&t);
        let v = any_scalar();
        t.push(v);
        assert!(t.value_stack.len() == n + 1 && t.top() == v);
        t.set_top(any_scalar());
        assert!(t.value_stack.len() == n + 1);
        t.set_top(v);
        let r = t.pop();
        assert!(r == v && t.value_stack.len() == n && same_prefix(&t.value_stack, &old, n));
        assert!(frame_ok(&s, &t));
        std::mem::forget(t);
    }

    #[kani::proof]
    #[kani::unwind(7)]
    #[kani::stub(std::fmt::format, stub_format)]
    fn stack_load_store_offset() {
        let (stack, old, n) = any_stack();
        let base: usize = kani::any();
        kani::assume(base <= N + 2);
        let off: i16 = kani::any();
        let idx = base as i128 + off as i128;
        kani::assume(0 <= idx && idx < n as i128);
        let mut t = mk_thread_with(stack, base, vec![], vec![]);
        assert!(t.load_offset(off) == old[idx as usize]);
        let v = any_scalar();
        t.store_offset(off, v);
        assert!(t.value_stack.len() == n && t.value_stack[idx as usize] == v);
        kani::cover!(off < 0, "negative offset");
        std::mem::forget(t);
    }

    // ------------------------------------------------------------- simple arms
    #[kani::proof]
    #[kani::unwind(7)]
    fn arm_pop_duplicate() {
        let (stack, old, n) = any_stack();
        kani::assume(n >= 1);
        let mut t = mk_thread_with(stack, 0, vec![], vec![]);
        let s = snap(&t);
        assert!(t.arm_Duplicate());
        assert!(t.value_stack.len() == n + 1 && t.value_stack[n] == old[n - 1]);
        assert!(t.arm_Pop());
        assert!(t.value_stack.len() == n && same_prefix(&t.value_stack, &old, n));
        assert!(frame_ok(&s, &t));
        std::mem::forget(t);
    }

    #[kani::proof]
    #[kani::unwind(7)]
    #[kani::stub(std::fmt::format, stub_format)]
    fn arm_load_store_offset() {
        let (stack, old, n) = any_stack();
        let base: usize = kani::any();
        kani::assume(base <= N + 2);
        let off: i16 = kani::any();
        let idx = base as i128 + off as i128;
        kani::assume(0 <= idx && idx < n as i128);
        let mut t = mk_thread_with(stack, base, vec![7], vec![]);
        let s = snap(&t);
        assert!(t.arm_LoadOffset(off));
        assert!(t.value_stack.len() == n + 1 && t.value_stack[n] == old[idx as usize]);
        // StoreOffset pops the value and writes it to the local
        let v = any_scalar();
        t.set_top(v);
        assert!(t.arm_StoreOffset(off));
        assert!(t.value_stack.len() == n && t.value_stack[idx as usize] == v);
        assert!(t.arm_StoreOffsetImm(off, 0));
        assert!(t.value_stack.len() == n && t.value_stack[idx as usize] == Value::from(7i64));
        assert!(frame_ok(&s, &t));
        std::mem::forget(t);
    }

    #[kani::proof]
    #[kani::unwind(7)]
    fn arm_push_constants() {
        let (stack, old, n) = any_stack();
        let k: i64 = kani::any();
        let fbits: u64 = kani::any();
        let mut t = mk_thread_with(stack, 0, vec![k], vec![f64::from_bits(fbits)]);
        let s = snap(&t);
        assert!(t.arm_PushInt(0));
        assert!(t.value_stack.len() == n + 1 && t.value_stack[n] == Value::from(k));
        assert!(t.arm_PushFloat(0));
        assert!(t.value_stack.len() == n + 2 && t.value_stack[n + 1] == Value(fbits, ValueTag::Float));
        let b: bool = kani::any();
        assert!(t.arm_PushBool(b));
        assert!(t.value_stack.len() == n + 3 && t.value_stack[n + 2] == Value::from(b));
        let a: u32 = kani::any();
        assert!(t.arm_PushAddr(ProgramCounter(a)));
        assert!(t.value_stack.len() == n + 4 && t.value_stack[n + 3] == Value::from(ProgramCounter(a)));
        assert!(same_prefix(&t.value_stack, &old, n));
        assert!(frame_ok(&s, &t));
        std::mem::forget(t);
    }

    #[kani::proof]
    #[kani::unwind(7)]
    fn arm_push_nil() {
        let (stack, old, n) = any_stack();
        let k: u16 = kani::any();
        kani::assume(k <= 3);
        let mut t = mk_thread_with(stack, 0, vec![], vec![]);
        assert!(t.arm_PushNil(k));
        assert!(t.value_stack.len() == n + k as usize);
        assert!(same_prefix(&t.value_stack, &old, n));
        std::mem::forget(t);
    }

    #[kani::proof]
    #[kani::unwind(7)]
    fn arm_not_equalbool() {
        let a: bool = kani::any();
        let b: bool = kani::any();
        let mut t = mk_thread_with(vec![Value::from(a), Value::from(b)], 0, vec![], vec![]);
        assert!(t.arm_EqualBool(TOP, TOP, TOP));
        assert!(t.value_stack.len() == 1 && t.value_stack[0] == Value::from(a == b));
        assert!(t.arm_Not(TOP, TOP));
        assert!(t.value_stack.len() == 1 && t.value_stack[0] == Value::from(!(a == b)));
        std::mem::forget(t);
    }

    #[kani::proof]
    #[kani::unwind(7)]
    fn arm_jumps() {
        let c: bool = kani::any();
        let target: u32 = kani::any();
        let pc0: u32 = kani::any();
        let mut t = mk_thread_with(vec![Value::from(c), Value::from(c)], 0, vec![], vec![]);
        t.pc = ProgramCounter(pc0);
        assert!(t.arm_JumpIf(ProgramCounter(target)));
        assert!(t.value_stack.len() == 1);
        assert!(t.pc.0 == if c { target } else { pc0 }, "JumpIf jumps exactly when the popped bool is true");
        t.pc = ProgramCounter(pc0);
        assert!(t.arm_JumpIfFalse(ProgramCounter(target)));
        assert!(t.value_stack.len() == 0);
        assert!(t.pc.0 == if !c { target } else { pc0 }, "JumpIfFalse jumps exactly when the popped bool is false");
        assert!(t.arm_Jump(ProgramCounter(target)));
        assert!(t.pc.0 == target);
        std::mem::forget(t);
    }

    // ------------------------------------------------------------- calls
    #[kani::proof]
    #[kani::unwind(8)]
    fn arm_call_return() {
        // caller has `pre` values, pushes nargs arguments, calls; callee leaves `extra`
        // operands plus the return value; Return must restore the caller's stack with the
        // result in place of the arguments, whatever `extra` is.
        let nargs: u32 = kani::any();
        kani::assume(nargs <= 2);
        let pre: usize = kani::any();
        kani::assume(pre <= 1);
        let extra: usize = kani::any();
        kani::assume(extra <= 2);
        let mut stack = Vec::new();
        let marker = any_scalar();
        if pre == 1 {
            stack.push(marker);
        }
        let mut i = 0;
        while i < 2 {
            if (i as u32) < nargs {
                stack.push(any_scalar());
            }
            i += 1;
        }
        let base0: usize = 0;
        let mut t = mk_thread_with(stack, base0, vec![], vec![]);
        let pc0: u32 = kani::any();
        let target: u32 = kani::any();
        kani::assume(target <= 0x07ff_ffff);
        t.pc = ProgramCounter(pc0);
        assert!(t.arm_Call(CallData::new(nargs, target)));
        assert!(t.pc.0 == target, "Call jumps to the callee");
        assert!(t.stack_base == pre + nargs as usize, "callee frame starts above the arguments");
        assert!(t.call_stack.len() == 1 && t.call_stack[0].pc.0 == pc0 && t.call_stack[0].stack_base == base0 && t.call_stack[0].nargs == nargs);
        let mut j = 0;
        while j < 2 {
            if j < extra {
                t.push(any_scalar());
            }
            j += 1;
        }
        let ret = any_scalar();
        t.push(ret);
        assert!(t.arm_Return(nargs));
        assert!(t.pc.0 == pc0, "Return resumes at the saved pc");
        assert!(t.stack_base == base0, "Return restores the caller's frame base");
        assert!(t.call_stack.len() == 0);
        assert!(t.value_stack.len() == pre + 1, "arguments and callee operands are gone, one result remains");
        assert!(t.value_stack[pre] == ret, "the result is the callee's top of stack");
        if pre == 1 {
            assert!(t.value_stack[0] == marker, "caller's operands untouched");
        }
        kani::cover!(extra == 2 && nargs == 2, "reachable");
        std::mem::forget(t);
    }

    #[kani::proof]
    #[kani::unwind(8)]
    fn arm_call_return_void() {
        let nargs: u32 = kani::any();
        kani::assume(nargs <= 2);
        let extra: usize = kani::any();
        kani::assume(extra <= 2);
        let marker = any_scalar();
        let mut stack = vec![marker];
        let mut i = 0;
        while i < 2 {
            if (i as u32) < nargs {
                stack.push(any_scalar());
            }
            i += 1;
        }
        let mut t = mk_thread_with(stack, 0, vec![], vec![]);
        let pc0: u32 = kani::any();
        t.pc = ProgramCounter(pc0);
        assert!(t.arm_Call(CallData::new(nargs, 5)));
        let mut j = 0;
        while j < 2 {
            if j < extra {
                t.push(any_scalar());
            }
            j += 1;
        }
        assert!(t.arm_ReturnVoid());
        assert!(t.pc.0 == pc0 && t.stack_base == 0 && t.call_stack.len() == 0);
        assert!(t.value_stack.len() == 1 && t.value_stack[0] == marker, "void return leaves exactly the caller's operands");
        std::mem::forget(t);
    }

    // ------------------------------------------------------------- structures
    #[kani::proof]
    #[kani::unwind(8)]
    fn arm_construct_deconstruct_struct() {
        let n: u16 = kani::any();
        kani::assume(n <= 3);
        let marker = any_scalar();
        let f0 = any_scalar();
        let f1 = any_scalar();
        let f2 = any_scalar();
        let mut stack = vec![marker];
        if n >= 1 { stack.push(f0); }
        if n >= 2 { stack.push(f1); }
        if n >= 3 { stack.push(f2); }
        let mut t = mk_thread_with(stack, 0, vec![], vec![]);
        assert!(t.arm_ConstructStruct(n));
        assert!(t.value_stack.len() == 2 && t.value_stack[0] == marker);
        let s = t.value_stack[1];
        assert!(s.1 == ValueTag::Struct);
        assert!(t.heap_list.len() == 1);
        // field i of the struct is the i-th pushed value
        if n >= 1 {
            t.push(s);
            assert!(t.arm_GetField(0, TOP));
            assert!(t.pop() == f0);
        }
        if n >= 3 {
            t.push(s);
            assert!(t.arm_GetField(2, TOP));
            assert!(t.pop() == f2);
        }
        // DeconstructStruct pushes the fields so that field 0 ends on top
        assert!(t.arm_DeconstructStruct());
        assert!(t.value_stack.len() == 1 + n as usize);
        if n >= 1 { assert!(t.value_stack[n as usize] == f0); }
        if n >= 2 { assert!(t.value_stack[n as usize - 1] == f1); }
        if n >= 3 { assert!(t.value_stack[n as usize - 2] == f2); }
        assert!(t.value_stack[0] == marker);
        kani::cover!(n == 3, "reachable");
        std::mem::forget(t);
    }

    #[kani::proof]
    #[kani::unwind(8)]
    fn arm_set_field() {
        let f0 = any_scalar();
        let f1 = any_scalar();
        let v = any_scalar();
        let idx: u16 = kani::any();
        kani::assume(idx < 2);
        let mut t = mk_thread_with(vec![f0, f1], 0, vec![], vec![]);
        assert!(t.arm_ConstructStruct(2));
        let s = t.value_stack[0];
        // SetField(index, reg): struct fetched through reg (Top), then the rvalue popped
        t.push(v);
        t.push(s);
        assert!(t.arm_SetField(idx, TOP));
        assert!(t.value_stack.len() == 1, "SetField consumes the struct operand and the rvalue");
        t.push(s);
        assert!(t.arm_GetField(idx, TOP));
        assert!(t.pop() == v, "the written field reads back");
        t.push(s);
        assert!(t.arm_GetField(1 - idx, TOP));
        assert!(t.pop() == if idx == 0 { f1 } else { f0 }, "the other field is unchanged");
        std::mem::forget(t);
    }

    #[kani::proof]
    #[kani::unwind(8)]
    fn arm_variant() {
        let payload = any_scalar();
        let tag: u16 = kani::any();
        let marker = any_scalar();
        let mut t = mk_thread_with(vec![marker, payload], 0, vec![], vec![]);
        assert!(t.arm_ConstructVariant(tag));
        assert!(t.value_stack.len() == 2 && t.value_stack[1].1 == ValueTag::Variant && t.value_stack[0] == marker);
        assert!(t.arm_DeconstructVariant());
        assert!(t.value_stack.len() == 3, "payload then tag");
        assert!(t.value_stack[1] == payload);
        assert!(t.value_stack[2] == Value::from(tag as AbraInt));
        std::mem::forget(t);
    }

    #[kani::proof]
    #[kani::unwind(8)]
    fn arm_closure_call() {
        // MakeClosure(n): [captures..., addr] -> closure struct {addr, captures...}? (layout from the
        // code: construct_struct(n+1) over the top n+1 values, field 0 must be the address)
        let cap0 = any_scalar();
        let cap1 = any_scalar();
        let ncap: u16 = kani::any();
        kani::assume(ncap <= 2);
        let addr: u32 = kani::any();
        let arg = any_scalar();
        let mut t = mk_thread_with(vec![arg], 0, vec![], vec![]);
        t.push(ProgramCounter(addr));
        if ncap >= 1 { t.push(cap0); }
        if ncap >= 2 { t.push(cap1); }
        assert!(t.arm_MakeClosure(ncap));
        assert!(t.value_stack.len() == 2 && t.value_stack[1].1 == ValueTag::Struct);
        let pc0: u32 = kani::any();
        t.pc = ProgramCounter(pc0);
        assert!(t.arm_CallFuncObj(1));
        assert!(t.pc.0 == addr, "jumps to the closure's code address");
        assert!(t.call_stack.len() == 1 && t.call_stack[0].pc.0 == pc0 && t.call_stack[0].nargs == 1);
        assert!(t.stack_base == 1, "frame base sits above the argument");
        assert!(t.value_stack.len() == 1 + ncap as usize, "captures are laid out as the first locals");
        if ncap >= 1 { assert!(t.value_stack[1] == cap0); }
        if ncap >= 2 { assert!(t.value_stack[2] == cap1); }
        assert!(t.value_stack[0] == arg);
        std::mem::forget(t);
    }

    // ------------------------------------------------------------- stop / host / panic
    #[kani::proof]
    fn arm_stop_hostfunc() {
        let mut t = mk_thread_with(vec![], 0, vec![], vec![]);
        let e: u16 = kani::any();
        assert!(!t.arm_HostFunc(e));
        assert!(t.pending_host_func == Some(e) && !t.done && t.error.is_none() && t.value_stack.len() == 0);
        t.clear_pending_host_func();
        assert!(!t.arm_Stop());
        assert!(t.done && t.error.is_none() && t.pending_host_func.is_none());
        std::mem::forget(t);
    }
}
