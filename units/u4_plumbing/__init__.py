"""U4: value encodings, stack/register helpers, control-flow and structure arms (Kani on
the real vm.rs).  Encodings are loop-free over full domains (complete); everything that
touches the value stack is bounded by stack length <= 4."""
import os
from units import vmk

HERE = os.path.dirname(os.path.abspath(__file__))
UNIT = "U4-plumbing"
B = "value stack length <= 4 (symbolic contents), frame base <= 6"
ARMS = ['PushNil', 'Call', 'CallFuncObj', 'Return', 'ReturnVoid', 'Stop', 'HostFunc', 'ConstructStruct', 'DeconstructStruct',
        'ConstructVariant', 'DeconstructVariant', 'GetField', 'SetField', 'MakeClosure']

ENC = ["C01", "C15", "C16", "C24", "C05", "C17", "C26"]   # every unit that assumes the encoding axioms
STK = ["C01", "C15", "C24", "C05", "C17", "C26", "C10"]   # every unit that assumes the stack-helper contracts
T = [
    dict(h="enc_int_roundtrip", id="C01.enc.int.roundtrip", props=ENC, fn="From<AbraInt> for Value / Value::get_int",
         text="forall n: get_int(from(n)) == n, tag Int; forall Int-tagged w: from(get_int(w)) == w  [= vmenv axiom_val_int, axiom_val_int_inj]"),
    dict(h="enc_bool_roundtrip", id="C01.enc.bool.roundtrip", props=ENC, fn="From<bool> for Value / Value::get_bool",
         text="forall b: get_bool(from(b)) == b, tag Bool  [= vmenv axiom_val_bool]"),
    dict(h="enc_float_roundtrip", id="C01.enc.float.roundtrip", props=ENC, fn="From<AbraFloat> for Value / Value::get_float",
         text="forall bit patterns f: get_float(from(f)) is bit-identical to f, tag Float"),
    dict(h="enc_addr_roundtrip", id="C01.enc.addr.roundtrip", props=["C01"], fn="From<ProgramCounter> for Value / Value::get_addr",
         text="forall a: u32: get_addr(from(pc a)) == a, tag Addr"),
    dict(h="enc_get_int_wrong_tag_faults", id="C01.enc.get_int.tag_precondition_necessary", props=["C01"], fn="Value::check_type",
         text="for every tag != Int, get_int reaches VmGreenThread::fail (should_panic harness): wrong-type use is detected, not silently reinterpreted"),
    dict(h="enc_calldata_roundtrip", id="C01.enc.calldata.roundtrip", props=["C01"], fn="CallData::{new,get_nargs,get_addr}",
         text="nargs < 32, addr <= ADDR_MASK ==> get_nargs/get_addr return what new was given"),
    dict(h="enc_is_pointer_table", id="C01.enc.is_pointer.table", props=["C01", "C06"], fn="ValueTag::is_pointer",
         text="is_pointer is true exactly for Struct, Array, Variant, String, Channel"),
    dict(h="stack_typed_store_is_from", id="C01.stack.typed_store.is_from", props=STK, fn="VmGreenThread::{store_offset_or_top,push,store_offset}<impl Into<Value>>",
         text="store_offset_or_top(Top, x) / push(x) / store_offset(n, x) store Value::from(x) for x: i64, bool, f64 (justifies rewrite R3 of the Verus units)"),
    dict(h="arm_push_nil", id="C01.vm.PushNil.post", props=["C01", "C05"], fn="step arm PushNil", bounded="n in {0, 3}", text="PushNil(n) pushes exactly n values"),
    dict(h=["arm_call_return_a", "arm_call_return_b", "arm_call_return_c"], id="C01.vm.Call_Return.stack_discipline", props=["C01", "C23"], fn="step arms Call, Return", bounded="shapes (nargs, caller operands, callee leftovers) in {(0,0,0), (2,1,2), (1,1,0)}; the general statement is u4a_ctrl's Verus obligation",
         text="Return(n) restores pc/base, leaves caller operands + exactly one result (= callee top) whatever number of operands the callee left"),
    dict(h=["arm_call_return_void_a", "arm_call_return_void_b"], id="C01.vm.Call_ReturnVoid.stack_discipline", props=["C01", "C23"], fn="step arms Call, ReturnVoid", bounded="shapes (nargs, leftovers) in {(0,0), (2,2)}",
         text="ReturnVoid restores pc/base and leaves exactly the caller's operands"),
    dict(h=["arm_construct_deconstruct_struct_0", "arm_construct_deconstruct_struct_1", "arm_construct_deconstruct_struct_3"], id="C01.vm.Struct.construct_get_deconstruct", props=["C01", "C14"], fn="step arms ConstructStruct, GetField, DeconstructStruct", bounded="n in {0, 1, 3} fields",
         text="field i is the i-th pushed value; DeconstructStruct pushes fields so that field 0 ends on top"),
    dict(h="arm_set_field", id="C01.vm.SetField.post", props=["C01"], fn="step arm SetField", bounded="2 fields", text="SetField writes exactly field idx; other field unchanged; consumes struct operand and rvalue"),
    dict(h="arm_variant", id="C01.vm.Variant.construct_deconstruct", props=["C01", "C14"], fn="step arms ConstructVariant, DeconstructVariant", text="DeconstructVariant leaves payload then tag (as int)"),
    dict(h=["arm_closure_call_0", "arm_closure_call_2"], id="C01.vm.MakeClosure_CallFuncObj.post", props=["C01", "C19"], fn="step arms MakeClosure, CallFuncObj", bounded="0 or 2 captures",
         text="MakeClosure snapshots [addr, captures..]; CallFuncObj jumps to addr, opens a frame above the arguments and lays the captures out as the first locals"),
    dict(h="arm_stop_hostfunc", id="C11.vm.Stop_HostFunc.post", props=["C11", "C01", "C10"], fn="step arms Stop, HostFunc", text="HostFunc(e) sets pending_host_func = e and nothing else, returns false; Stop sets done, returns false"),
]
for r in T:
    r['h'] = ["vm::u4::" + h for h in r['h']] if isinstance(r['h'], list) else "vm::u4::" + r['h']


def run(tier="quick"):
    return vmk.run_table(UNIT, "u4", ARMS, os.path.join(HERE, "harness.rs"), T, timeout=600, jobs=8)
