"""U5v: the element-level array arms of step() (GetIndex, SetIndex, ArrayLength, ArrayPop), lifted
verbatim and verified by Verus against the sequence model for arrays of EVERY length (the Kani
unit u5_array explores lengths 0..3 on the real pointer code).  Rewrite R8: the statement
`let arr = val.get_array(self);` / `let arr = unsafe { val.get_array_mut(self) };` (check_type + raw
pointer dereference) is dropped and `arr` becomes a parameter of the lifted arm."""
import os
import re
import slicer as S
from units.vmenv import armunit

HERE = os.path.dirname(os.path.abspath(__file__))
U1SPEC = os.path.join(os.path.dirname(HERE), 'u1_int', 'spec.rs')
UNIT = "U5v-array"
O = "*old(self)"
F = "*final(self)"
S0 = "old(self).value_stack@"
B = "old(self).stack_base as int"
P = ["C26", "C01"]

# (the name of the operand variable is free: a rename of `val` must not lose the anchor)
R8_REF = (r'\n\s*let arr = \w+\.get_array\(self\);', '', 1)
R8_MUT = (r'\n\s*let arr = unsafe \{ \w+\.get_array_mut\(self\) \};', '', 1)

ARMS = {
    'GetIndex': dict(props=P, extra_params="arr: &ArrayObject", rewrites=[R8_REF, (r'self\.push\(field\)', 'self.push_val(field)', 1)], contract=(
        "        requires reg_ok(%(S0)s, %(B)s, reg2), tag_of(reg_val(%(S0)s, %(B)s, reg2)) == ValueTag::Int,\n"
        "                 reg_ok(reg_after_load(%(S0)s, reg2), %(B)s, reg1),\n"
        "        ensures ({\n"
        "            let idx = int_of(reg_val(%(S0)s, %(B)s, reg2));\n"
        "            let rest = reg_after_load(reg_after_load(%(S0)s, reg2), reg1);\n"
        "            if 0 <= idx < arr.data@.len() {\n"
        "                cont && final(self).value_stack@ == rest.push(arr.data@[idx as int]) && frame_stack(%(O)s, %(F)s)\n"
        "            } else {\n"
        "                !cont && has_error(%(F)s, ErrK::OutOfBounds) && final(self).value_stack@ == rest && frame_stack_err(%(O)s, %(F)s)\n"
        "            }\n"
        "        }),\n" % dict(S0=S0, B=B, O=O, F=F))),
    'SetIndex': dict(props=P, extra_params="arr: &mut ArrayObject", rewrites=[R8_MUT], contract=(
        "        requires reg_ok(%(S0)s, %(B)s, reg2),\n"
        "                 reg_ok(reg_after_load(%(S0)s, reg2), %(B)s, reg1),\n"
        "                 tag_of(reg_val(reg_after_load(%(S0)s, reg2), %(B)s, reg1)) == ValueTag::Int,\n"
        "                 reg_after_load(reg_after_load(%(S0)s, reg2), reg1).len() > 0,\n"
        "        ensures ({\n"
        "            let rvalue = reg_val(%(S0)s, %(B)s, reg2);\n"
        "            let s1 = reg_after_load(%(S0)s, reg2);\n"
        "            let idx = int_of(reg_val(s1, %(B)s, reg1));\n"
        "            let rest = reg_after_load(s1, reg1).drop_last();\n"
        "            if 0 <= idx < old(arr).data@.len() {\n"
        "                cont && final(arr).data@ == old(arr).data@.update(idx as int, rvalue)\n"
        "                    && final(self).value_stack@ == rest && frame_barrier(%(O)s, %(F)s)\n"
        "            } else {\n"
        "                !cont && has_error(%(F)s, ErrK::OutOfBounds) && final(arr).data@ == old(arr).data@\n"
        "                    && final(self).value_stack@ == rest && frame_stack_err(%(O)s, %(F)s)\n"
        "            }\n"
        "        }),\n" % dict(S0=S0, B=B, O=O, F=F))),
    'ArrayLength': dict(props=P, extra_params="arr: &ArrayObject", store='int', rewrites=[R8_REF], contract=(
        "        requires reg_ok(%(S0)s, %(B)s, reg), reg_store_ok(reg_after_load(%(S0)s, reg), %(B)s, dest),\n"
        "                 arr.data@.len() <= i64::MAX,   // a Vec<Value> holds at most isize::MAX / 16 elements\n"
        "        ensures cont && frame_stack(%(O)s, %(F)s)\n"
        "            && final(self).value_stack@ == reg_after_store(reg_after_load(%(S0)s, reg), %(B)s, dest, val_int(arr.data@.len() as i64)),\n"
        % dict(S0=S0, B=B, O=O, F=F))),
    'ArrayPop': dict(props=P, extra_params="arr: &mut ArrayObject", store='val', rewrites=[R8_MUT], contract=(
        "        requires reg_ok(%(S0)s, %(B)s, reg), reg_store_ok(reg_after_load(%(S0)s, reg), %(B)s, dest),\n"
        "        ensures ({\n"
        "            let rest = reg_after_load(%(S0)s, reg);\n"
        "            if old(arr).data@.len() > 0 {\n"
        "                cont && final(arr).data@ == old(arr).data@.drop_last() && frame_stack(%(O)s, %(F)s)\n"
        "                    && final(self).value_stack@ == reg_after_store(rest, %(B)s, dest, old(arr).data@.last())\n"
        "            } else {\n"
        "                !cont && has_error(%(F)s, ErrK::OutOfBounds) && final(arr).data@ == old(arr).data@\n"
        "                    && final(self).value_stack@ == rest && frame_stack_err(%(O)s, %(F)s)\n"
        "            }\n"
        "        }),\n" % dict(S0=S0, B=B, O=O, F=F))),
}

# Z3 needs to see the product with the literal 16 (size_of::<Value>()) once; checked, not assumed
HINT = ("let cap2 = arr.data.capacity();", "assert((cap2 - cap1) * 16 <= usize::MAX);")
PUSH_ARMS = {
    'ArrayPush': dict(props=P + ["C07"], extra_params="arr: &mut ArrayObject", rewrites=[R8_MUT],
                      proof_at=[HINT], contract=(
        "        requires reg_ok(%(S0)s, %(B)s, reg2), reg_ok(reg_after_load(%(S0)s, reg2), %(B)s, reg1),\n"
        "                 old(self).heap_size <= usize::MAX / 2, old(self).gc_debt <= usize::MAX / 2,\n"
        "        ensures cont && push_post(%(O)s, %(F)s, *old(arr), *final(arr),\n"
        "                    reg_after_load(reg_after_load(%(S0)s, reg2), reg1), reg_val(%(S0)s, %(B)s, reg2)),\n"
        % dict(S0=S0, B=B, O=O, F=F))),
    'ArrayPushIntImm': dict(props=P + ["C07", "C05"], extra_params="arr: &mut ArrayObject", proof_at=[HINT],
                            rewrites=[R8_MUT, (r'Value::from\(rvalue\)', 'Value::from_int(rvalue)', 1)], contract=(
        "        requires reg_ok(%(S0)s, %(B)s, reg1), (imm as int) < old(self).shared.int_constants@.len(),\n"
        "                 old(self).heap_size <= usize::MAX / 2, old(self).gc_debt <= usize::MAX / 2,\n"
        "        ensures cont && push_post(%(O)s, %(F)s, *old(arr), *final(arr),\n"
        "                    reg_after_load(%(S0)s, reg1), val_int(old(self).shared.int_constants@[imm as int])),\n"
        % dict(S0=S0, B=B, O=O, F=F))),
}

# ArrayPop once more, on the R9 stand-in, for the ACCOUNTING half of C07: heap_size counts capacity * 16 per array, so an arm
# may change an array's capacity only together with heap_size (ArrayPop: neither changes)
PUSH_ARMS['ArrayPop'] = dict(props=["C07", "C26"], clause='accounting', extra_params="arr: &mut ArrayObject", store='val', rewrites=[R8_MUT], contract=(
    "        requires reg_ok(%(S0)s, %(B)s, reg), reg_store_ok(reg_after_load(%(S0)s, reg), %(B)s, dest),\n"
    "        ensures final(arr).data.cap() == old(arr).data.cap(),\n"
    "            final(self).heap_size == old(self).heap_size, final(self).gc_debt == old(self).gc_debt,\n"
    "            old(arr).data@.len() > 0 ==> cont && final(arr).data@ == old(arr).data@.drop_last(),\n"
    "            old(arr).data@.len() == 0 ==> !cont && final(arr).data@ == old(arr).data@,\n"
    % dict(S0=S0, B=B)))

ASSUMED_PUSH = [
    "U5v/R9 (push arms only): the field type `data: Vec<Value>` of ArrayObject is replaced by a contract-only stand-in with the ASSUMED "
    "contract of std Vec: push appends one element and never lowers capacity; capacity() >= len(); capacity * 16 <= isize::MAX",
    "U5v (push arms): heap_size and gc_debt are at most usize::MAX / 2 on entry (they count bytes of live allocations)",
]

ASSUMED = [
    "U5v/R8: `arr` (a parameter of the lifted arm) is the ArrayObject the operand value points to, and it does not alias the thread "
    "struct; the tag check (check_type) and the raw pointer dereference inside Value::get_array / get_array_mut are dropped "
    "(explored on the real pointer code by Kani unit u5_array at lengths 0..3)",
    "U5v: write_barrier leaves everything but the gray stack and object colours unchanged (contract-only stand-in; C06/u6_gc decides the GC side)",
    "U5v: ArrayObject::header_ptr is a pointer cast (contract-only stand-in: elements unchanged)",
    "U5v: vstd's specifications of Vec::len / index / index assignment / pop",
]


def run(tier="quick"):
    items = "// ---- real (vm.rs) ----\n" + S.item(armunit.V, r'struct ArrayObject \{') + "\n"
    obs, info = armunit.run_arm_unit(UNIT, "u5v", [U1SPEC, os.path.join(HERE, 'spec.rs')], ARMS, P, id_prefix="C26v",
                                     extra_assumptions=ASSUMED, extra_trusted=["rewrite rule R8 (array operand as parameter)"], extra_items=items)
    items2, k = re.subn(r'data: Vec<Value>,', 'data: AVec,', items)
    if k != 1:
        raise S.SliceError("R9: field `data: Vec<Value>` of ArrayObject not found")
    obs2, info2 = armunit.run_arm_unit(UNIT, "u5vp", [U1SPEC, os.path.join(HERE, 'spec.rs'), os.path.join(HERE, 'spec_push.rs')], PUSH_ARMS, P,
                                       id_prefix="C26v", extra_assumptions=ASSUMED + ASSUMED_PUSH,
                                       extra_trusted=["rewrite rules R8, R9"], extra_items=items2)
    for k2 in ('assumptions', 'trusted_base', 'checker_cmds'):
        info[k2] = list(info.get(k2, [])) + [x for x in info2.get(k2, []) if x not in info.get(k2, [])]
    info['notes'] = dict(elements=info.get('notes'), push=info2.get('notes'))
    return obs + obs2, info


def replay(ob):
    from units import u5_array
    class _O:  # same canned programs as the Kani unit
        id = ob.id.replace("C26v.", "C26.")
    return u5_array.replay(_O)
