// ---- U5v: array arms, unbounded lengths ------------------------------------------
// everything except value_stack and gray_stack is unchanged (the write barrier may shade a child)
spec fn frame_barrier(a: VmGreenThread, b: VmGreenThread) -> bool {
    &&& a.pc == b.pc
    &&& a.stack_base == b.stack_base
    &&& a.call_stack@ == b.call_stack@
    &&& a.heap_list@ == b.heap_list@
    &&& a.gc_state == b.gc_state
    &&& a.gc_visited == b.gc_visited
    &&& a.heap_size == b.heap_size
    &&& a.gc_debt == b.gc_debt
    &&& a.last_gc_heap_size == b.last_gc_heap_size
    &&& a.pending_host_func == b.pending_host_func
    &&& a.error == b.error
    &&& a.pending_ffi_call == b.pending_ffi_call
    &&& a.done == b.done
    &&& a.string_op_index1 == b.string_op_index1
    &&& a.string_op_index2 == b.string_op_index2
    &&& a.string_operand1 == b.string_operand1
    &&& a.string_operand2 == b.string_operand2
    &&& a.concat_string_builder@ == b.concat_string_builder@
    &&& a.is_main == b.is_main
    &&& a.id == b.id
    &&& a.shared == b.shared
}
// same, error also allowed to change
spec fn frame_barrier_err(a: VmGreenThread, b: VmGreenThread) -> bool {
    frame_barrier(VmGreenThread { error: b.error, ..a }, b)
}

impl ArrayObject {
    // real: vm.rs ArrayObject::header_ptr (`self as *mut Self as *mut ObjectHeader`): a pointer cast, no effect on the elements
    #[verifier::external_body]
    fn header_ptr(&mut self) -> (r: *mut ObjectHeader)
        ensures final(self).data == old(self).data,
    { unimplemented!() }
}

impl VmGreenThread {
    // real: vm.rs VmGreenThread::write_barrier (GC shading: touches object headers through raw pointers and the gray stack only;
    // the GC side is decided by unit u6_gc, property C06)
    #[verifier::external_body]
    fn write_barrier(&mut self, parent: *mut ObjectHeader, child: Value)
        ensures final(self).value_stack@ == old(self).value_stack@, frame_barrier(*old(self), *final(self)),
    { unimplemented!() }
}
