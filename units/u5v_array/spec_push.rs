// ---- U5v (push arms): contract-only stand-in for the std Vec<Value> behind ArrayObject.data (rule R9) ----
// ASSUMED contract of std::vec::Vec: push appends one element and never lowers the capacity;
// capacity() >= len(); a Vec<Value> (16-byte elements) never has more than isize::MAX bytes.
global size_of Value == 16;
#[verifier::external_body]
struct AVec { v: Vec<Value> }
impl AVec {
    uninterp spec fn view(&self) -> Seq<Value>;
    uninterp spec fn cap(&self) -> nat;
    #[verifier::external_body]
    fn capacity(&self) -> (r: usize)
        ensures r == self.cap(), self.cap() >= self@.len(), self.cap() * 16 <= isize::MAX,
    { unimplemented!() }
    #[verifier::external_body]
    fn push(&mut self, x: Value)
        ensures final(self)@ == old(self)@.push(x), final(self).cap() >= old(self).cap(),
    { unimplemented!() }
}
impl Value {
    // real: From<AbraInt> for Value (R3 typed; round trip proved by Kani U4.enc.int_roundtrip)
    #[verifier::external_body]
    fn from_int(n: AbraInt) -> (r: Value) ensures r == val_int(n) { unimplemented!() }
}
// everything except value_stack, gray_stack, heap_size and gc_debt is unchanged
spec fn frame_push(a: VmGreenThread, b: VmGreenThread) -> bool {
    frame_barrier(VmGreenThread { heap_size: b.heap_size, gc_debt: b.gc_debt, ..a }, b)
}
spec fn push_post(a: VmGreenThread, b: VmGreenThread, arr0: ArrayObject, arr1: ArrayObject, rest: Seq<Value>, x: Value) -> bool {
    &&& arr1.data@ == arr0.data@.push(x)
    &&& b.value_stack@ == rest
    &&& frame_push(a, b)
    &&& arr1.data.cap() >= arr0.data.cap()
    &&& b.heap_size == a.heap_size + (arr1.data.cap() - arr0.data.cap()) * 16
    &&& b.gc_debt == a.gc_debt + (arr1.data.cap() - arr0.data.cap()) * 16
}
