// ---- U5v (push arms): contract-only stand-in for the std Vec<Value> behind ArrayObject.data (rule R9) ----
// ASSUMED contract of std::vec::Vec: push appends one element and never lowers the capacity;
// capacity() >= len(); a Vec<Value> (16-byte elements) never has more than isize::MAX bytes.
global size_of Value == 16;
#[verifier::external_body]
struct AVec { v: Vec<Value> }
impl AVec {
    uninterp spec fn view(&self) -> Seq<Value>;
    uninterp spec fn cap(&self) -> nat;
    #[verifier::external_body]
    fn capacity(&self) -> (r: usize)
        ensures r == self.cap(), self.cap() >= self@.len(), self.cap() * 16 <= isize::MAX,
    { unimplemented!() }
    #[verifier::external_body]
    fn push(&mut self, x: Value)
        ensures final(self)@ == old(self)@.push(x), final(self).cap() >= old(self).cap(),
    { unimplemented!() }
    // std: Vec::pop never changes the capacity
    #[verifier::external_body]
    fn pop(&mut self) -> (r: Option<Value>)
        ensures
            old(self)@.len() > 0 ==> r == Some(old(self)@.last()) && final(self)@ == old(self)@.drop_last(),
            old(self)@.len() == 0 ==> r.is_none() && final(self)@ == old(self)@,
            final(self).cap() == old(self).cap(),
    { unimplemented!() }
    #[verifier::external_body]
    fn len(&self) -> (r: usize)
        ensures r == self@.len(),
    { unimplemented!() }
    #[verifier::external_body]
    fn is_empty(&self) -> (r: bool)
        ensures r == (self@.len() == 0),
    { unimplemented!() }
    // std: shrink_to / shrink_to_fit / reserve / truncate / clear keep the elements (truncate/clear: a prefix); only the capacity may move
    #[verifier::external_body]
    fn shrink_to(&mut self, min_capacity: usize)
        ensures final(self)@ == old(self)@, final(self).cap() <= old(self).cap(), final(self).cap() >= final(self)@.len(),
    { unimplemented!() }
    #[verifier::external_body]
    fn shrink_to_fit(&mut self)
        ensures final(self)@ == old(self)@, final(self).cap() <= old(self).cap(), final(self).cap() >= final(self)@.len(),
    { unimplemented!() }
    #[verifier::external_body]
    fn reserve(&mut self, additional: usize)
        ensures final(self)@ == old(self)@, final(self).cap() >= old(self).cap(),
    { unimplemented!() }
    #[verifier::external_body]
    fn truncate(&mut self, len: usize)
        ensures final(self)@ == (if len < old(self)@.len() { old(self)@.subrange(0, len as int) } else { old(self)@ }), final(self).cap() == old(self).cap(),
    { unimplemented!() }
    #[verifier::external_body]
    fn clear(&mut self)
        ensures final(self)@ == Seq::<Value>::empty(), final(self).cap() == old(self).cap(),
    { unimplemented!() }
}
impl Value {
    // real: From<AbraInt> for Value (R3 typed; round trip proved by Kani U4.enc.int_roundtrip)
    #[verifier::external_body]
    fn from_int(n: AbraInt) -> (r: Value) ensures r == val_int(n) { unimplemented!() }
}
// everything except value_stack, gray_stack, heap_size and gc_debt is unchanged
spec fn frame_push(a: VmGreenThread, b: VmGreenThread) -> bool {
    frame_barrier(VmGreenThread { heap_size: b.heap_size, gc_debt: b.gc_debt, ..a }, b)
}
spec fn push_post(a: VmGreenThread, b: VmGreenThread, arr0: ArrayObject, arr1: ArrayObject, rest: Seq<Value>, x: Value) -> bool {
    &&& arr1.data@ == arr0.data@.push(x)
    &&& b.value_stack@ == rest
    &&& frame_push(a, b)
    &&& arr1.data.cap() >= arr0.data.cap()
    &&& b.heap_size == a.heap_size + (arr1.data.cap() - arr0.data.cap()) * 16
    &&& b.gc_debt == a.gc_debt + (arr1.data.cap() - arr0.data.cap()) * 16
}
