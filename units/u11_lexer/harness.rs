// U11 lexer harnesses.  This text is `include!`d into a child module of the module that
// contains /repo/abra_core/src/parse/lexer.rs verbatim (`use super::*` is in effect), so every
// private item of the real file is visible.  Nothing in here re-implements lexer code: the
// `spec_*` functions are written from the property statements (C29/C30/C33), `stub_*`
// functions replace *std* internals that CBMC cannot afford (listed in evidence) or, for the
// whole-`tokenize_file` harnesses, two callees by their separately checked contracts.
//
// @..@ placeholders are bounds filled in by __init__.py per tier.

use crate::statics::{FileData, FileDatabase};

// ------------------------------------------------------------------ alphabets
// a letter, a digit, `_`, `.`, `/`, `*`, `"`, `'`, `\`, newline, space, a 2-byte and a 4-byte scalar,
// plus `x`, `n` (escape letters; `a` and `7` double as hex digits) and `+`.
const T_ALL: [char; 16] = [
    'a', '7', '_', '.', '/', '*', '"', '\'', '\\', '\n', ' ', 'é', '😀', 'x', 'n', '+',
];
// Rule for every alphabet below: it contains SPECIAL = { \ " ' newline * / }, i.e. every char
// that is special to SOME scanner in lexer.rs (escape pairs and string delimiters of
// scan_for_unescaped_delim / process_escapes_into, the line-comment terminator, the block-comment
// delimiters) -- re-using a scanner in the wrong context (e.g. the string scanner, which
// treats `\` as an escape, to skip comments) is only visible on such chars.
// comment bodies: SPECIAL, a letter, a multi-byte char, space
const T_CMT: [char; 9] = ['*', '/', '\n', 'a', 'é', ' ', '\\', '"', '\''];
// escapes: SPECIAL, x, n, hex digits a 7, `+` (accepted by from_str_radix), multi-byte
const T_ESC: [char; 13] = ['\\', 'x', 'n', '"', '\'', 'a', '7', '+', 'é', '😀', '\n', '*', '/'];
// numbers: SPECIAL, digit, `_`, `.`, `-`, letter, space, multi-byte
const T_NUM: [char; 13] = ['7', '_', '.', 'a', ' ', 'é', '-', '\\', '"', '\'', '\n', '*', '/'];
// span harness: SPECIAL (minus nothing), one-char tokens, digit, letter, blank, 2-byte, 4-byte
const T_SPAN: [char; 11] = ['*', '7', 'a', ' ', '\n', 'é', '😀', '\\', '"', '\'', '/'];

fn pick<const K: usize>(t: &[char; K]) -> char {
    let i: u8 = kani::any();
    kani::assume((i as usize) < K);
    t[i as usize]
}

/// Symbolic input: `len <= N` chars drawn from table `t`.
/// kani::any() order (for concrete playback): len, then N table indices.
struct Input<const N: usize> {
    cs: [char; N],
    len: usize,
}

fn any_input<const N: usize, const K: usize>(t: &[char; K]) -> Input<N> {
    let len: u8 = kani::any();
    kani::assume(len as usize <= N);
    let mut cs = ['\0'; N];
    let mut i = 0;
    while i < N {
        cs[i] = pick(t);
        i += 1;
    }
    Input { cs, len: len as usize }
}

fn to_source<const N: usize>(inp: &Input<N>) -> String {
    let mut s = String::new();
    let mut i = 0;
    while i < N {
        if i < inp.len {
            s.push(inp.cs[i]);
        }
        i += 1;
    }
    s
}

/// The ONLY place that names the fields of `Lexer` (a change of the struct needs one edit
/// here; until then the unit reports UNDECIDED, not a verdict).  The state is the one
/// Lexer::new(source) establishes for a source whose chars are `v` -- by the meaning of
/// `source.chars().collect()`; executing String -> Vec<char> symbolically is out of CBMC's
/// reach (measured: > 400 s at 4 chars).
fn lexer_on(v: Vec<char>) -> Lexer {
    Lexer { chars: v, index: 0, tokens: Vec::with_capacity(4) }
}

fn mk_lexer<const N: usize>(inp: &Input<N>) -> Lexer {
    let mut v = inp.cs.to_vec();
    v.truncate(inp.len);
    lexer_on(v)
}

fn mk_ctx(source: String) -> StaticsContext {
    StaticsContext {
        file_db: FileDatabase { files: vec![FileData { source }] },
        errors: Vec::with_capacity(8),
    }
}

// ------------------------------------------------------------------ std stubs (cost only)

/// core::str::count::count_chars (word-at-a-time SWAR code) replaced by its specification:
/// the number of bytes that are not UTF-8 continuation bytes.
fn stub_count_chars(s: &str) -> usize {
    let b = s.as_bytes();
    let mut n = 0;
    let mut i = 0;
    while i < b.len() {
        if (b[i] as i8) >= -0x40 {
            n += 1;
        }
        i += 1;
    }
    n
}

/// String::push without amortised growth (realloc of symbolic size is what CBMC cannot
/// afford): at most one move into a buffer of SCAP bytes, then in-place UTF-8 appends.
/// A string outgrowing SCAP trips the "harness bound" assertion, which the unit reports as
/// UNDECIDED, never as a failure.
const SCAP: usize = @SCAP@;
fn stub_string_push(s: &mut String, ch: char) {
    unsafe {
        let v = s.as_mut_vec();
        let len = v.len();
        if v.capacity() - len < 4 {
            // only ever taken for a fresh String (capacity 0) or one made by String::from(char)
            // (exact capacity 1..4): at most 4 bytes to move.  The old buffer (<= 4 bytes) is leaked.
            assert!(len <= 4 && SCAP >= 8, "harness bound: String longer than SCAP");
            let np = std::alloc::alloc(std::alloc::Layout::from_size_align_unchecked(SCAP, 1));
            let op = v.as_ptr();
            if len > 0 {
                *np = *op;
            }
            if len > 1 {
                *np.add(1) = *op.add(1);
            }
            if len > 2 {
                *np.add(2) = *op.add(2);
            }
            if len > 3 {
                *np.add(3) = *op.add(3);
            }
            core::mem::forget(core::mem::replace(v, Vec::from_raw_parts(np, len, SCAP)));
        }
        let code = ch as u32;
        let p = v.as_mut_ptr().add(len);
        let n = if code < 0x80 {
            *p = code as u8;
            1
        } else if code < 0x800 {
            *p = (code >> 6 & 0x1F) as u8 | 0xC0;
            *p.add(1) = (code & 0x3F) as u8 | 0x80;
            2
        } else if code < 0x10000 {
            *p = (code >> 12 & 0x0F) as u8 | 0xE0;
            *p.add(1) = (code >> 6 & 0x3F) as u8 | 0x80;
            *p.add(2) = (code & 0x3F) as u8 | 0x80;
            3
        } else {
            *p = (code >> 18 & 0x07) as u8 | 0xF0;
            *p.add(1) = (code >> 12 & 0x3F) as u8 | 0x80;
            *p.add(2) = (code >> 6 & 0x3F) as u8 | 0x80;
            *p.add(3) = (code & 0x3F) as u8 | 0x80;
            4
        };
        v.set_len(len + n);
    }
}

/// Vec::push without amortised growth: in-place write while len < capacity; an empty Vec
/// (capacity 0, e.g. `vec![]`) first gets one buffer of VCAP elements.  Outgrowing it trips
/// the "harness bound" assertion (reported UNDECIDED).
const VCAP: usize = 8;
fn stub_vec_push<T, A: std::alloc::Allocator>(v: &mut Vec<T, A>, x: T) {
    unsafe {
        if v.capacity() == 0 {
            v.reserve_exact(VCAP);
        }
        let len = v.len();
        assert!(len < v.capacity(), "harness bound: Vec longer than its preallocated capacity");
        core::ptr::write(v.as_mut_ptr().add(len), x);
        v.set_len(len + 1);
    }
}

// ------------------------------------------------------------------ spec helpers

fn utf8_len(c: char) -> usize {
    let code = c as u32;
    if code < 0x80 {
        1
    } else if code < 0x800 {
        2
    } else if code < 0x10000 {
        3
    } else {
        4
    }
}

/// byte offset of char position `k` in the text cs[..len] (k <= len)
fn byte_off<const N: usize>(inp: &Input<N>, k: usize) -> usize {
    let mut b = 0;
    let mut i = 0;
    while i < N {
        if i < k && i < inp.len {
            b += utf8_len(inp.cs[i]);
        }
        i += 1;
    }
    b
}

fn hex_val(c: char) -> Option<u32> {
    match c {
        '0'..='9' => Some(c as u32 - '0' as u32),
        'a'..='f' => Some(c as u32 - 'a' as u32 + 10),
        'A'..='F' => Some(c as u32 - 'A' as u32 + 10),
        _ => None,
    }
}

// ================================================================== C30.lex.delim_scan.post
/// Spec (from C30/DESIGN): the first position p >= start holding the delimiter and preceded
/// by an even number of consecutive backslashes (counted back to `start`); None if there is none.
fn spec_scan<const N: usize>(inp: &Input<N>, base: usize, start: usize, d: char) -> Option<usize> {
    let mut p = start;
    while base + p < inp.len {
        if inp.cs[base + p] == d {
            let mut k = 0;
            while p - k > start && inp.cs[base + p - k - 1] == '\\' {
                k += 1;
            }
            if k % 2 == 0 {
                return Some(p);
            }
        }
        p += 1;
    }
    None
}

#[cfg(feature = "h_delim_scan")]
#[kani::proof]
#[kani::stub(std::vec::Vec::push, stub_vec_push)]
#[kani::unwind(@U_SCAN@)]
fn delim_scan() {
    const N: usize = @N_SCAN@;
    let inp = any_input::<N, 16>(&T_ALL);
    let base: u8 = kani::any();
    kani::assume(base as usize <= inp.len);
    let start: u8 = kani::any();
    kani::assume(start as usize <= N + 1);
    let dq: bool = kani::any();
    let d = if dq { '"' } else { '\'' };
    let mut lx = mk_lexer(&inp);
    lx.index = base as usize;
    let got = scan_for_unescaped_delim(&lx, start as usize, &[d], false);
    let want = spec_scan(&inp, base as usize, start as usize, d);
    kani::cover!(want.is_some() && want != Some(start as usize), "reachable: delimiter found after start");
    kani::cover!(want.is_none() && inp.len == N, "reachable: no unescaped delimiter");
    assert!(got == want, "C30.delim_scan: result is the first unescaped delimiter at or after start");
}

// ================================================================== C30.lex.escapes.post
/// Spec `unescape` (the seven escape forms of C30: \n \t \r \" \' \\ \xNN with NN two hex
/// digits = the scalar U+00NN; a backslash that is the last char stands for itself; every
/// other char stands for itself).  Returns (bytes, nbytes, bad) with bad = some other escape.
fn spec_unescape<const N: usize>(inp: &Input<N>) -> ([char; N], usize, bool) {
    let mut out = ['\0'; N];
    let mut n = 0;
    let mut bad = false;
    let mut p = 0;
    while p < inp.len {
        let c = inp.cs[p];
        if c == '\\' && p + 1 < inp.len {
            let mut put: Option<char> = None;
            let mut used = 2;
            match inp.cs[p + 1] {
                'n' => put = Some('\n'),
                't' => put = Some('\t'),
                'r' => put = Some('\r'),
                '"' => put = Some('"'),
                '\'' => put = Some('\''),
                '\\' => put = Some('\\'),
                'x' => {
                    if p + 3 < inp.len {
                        if let (Some(h), Some(l)) = (hex_val(inp.cs[p + 2]), hex_val(inp.cs[p + 3])) {
                            put = char::from_u32(h * 16 + l);
                            used = 4;
                        }
                    }
                }
                _ => {}
            }
            match put {
                Some(ch) => {
                    out[n] = ch;
                    n += 1;
                }
                None => bad = true,
            }
            p += used;
        } else {
            out[n] = c;
            n += 1;
            p += 1;
        }
    }
    (out, n, bad)
}

/// bytes b[off..] start with the UTF-8 encoding of c
fn starts_with_char(b: &[u8], off: usize, c: char) -> bool {
    let code = c as u32;
    let k = utf8_len(c);
    if off + k > b.len() {
        return false;
    }
    if k == 1 {
        b[off] == code as u8
    } else if k == 2 {
        b[off] == (code >> 6 & 0x1F) as u8 | 0xC0 && b[off + 1] == (code & 0x3F) as u8 | 0x80
    } else if k == 3 {
        b[off] == (code >> 12 & 0x0F) as u8 | 0xE0
            && b[off + 1] == (code >> 6 & 0x3F) as u8 | 0x80
            && b[off + 2] == (code & 0x3F) as u8 | 0x80
    } else {
        b[off] == (code >> 18 & 0x07) as u8 | 0xF0
            && b[off + 1] == (code >> 12 & 0x3F) as u8 | 0x80
            && b[off + 2] == (code >> 6 & 0x3F) as u8 | 0x80
            && b[off + 3] == (code & 0x3F) as u8 | 0x80
    }
}

/// String::push for the escapes harnesses: process_escapes_into only ever *appends* to its
/// result `s` (never reads it; checked textually by __init__.py on every run), so the
/// appended chars are logged here and compared with unescape(cs) char by char.
static mut LOG: [char; 8] = ['\0'; 8];
static mut LOGN: usize = 0;
fn stub_push_log(_s: &mut String, ch: char) {
    unsafe {
        assert!(LOGN < 8, "harness bound: more than 8 chars appended");
        LOG[LOGN] = ch;
        LOGN += 1;
    }
}

#[cfg(any(feature = "h_escapes", feature = "h_escapes_hex"))]
fn check_escapes<const N: usize>(inp: &Input<N>) {
    let mut ctx = mk_ctx(String::new());
    let s = process_escapes_into(&inp.cs[..inp.len], &mut ctx, 0);
    let (want, wn, bad) = spec_unescape::<N>(inp);
    kani::cover!(!bad && wn < inp.len && inp.len == N, "reachable: some escape decoded");
    kani::cover!(bad, "reachable: unknown escape");
    assert!((ctx.errors.len() > 0) == bad, "C30.escapes: a diagnostic is reported iff the text contains an escape other than \\n \\t \\r \\\" \\' \\\\ \\xNN (NN two hex digits)");
    if !bad {
        let got_n = unsafe { LOGN };
        assert!(got_n == wn, "C30.escapes: decoded text equals unescape(cs) (length)");
        let mut i = 0;
        while i < N {
            if i < wn {
                assert!(unsafe { LOG[i] } == want[i], "C30.escapes: decoded text equals unescape(cs)");
            }
            i += 1;
        }
    }
    core::mem::forget(s);
}

/// every text of <= N chars over T_ESC
#[cfg(feature = "h_escapes")]
#[kani::proof]
#[kani::stub(std::vec::Vec::push, stub_vec_push)]
#[kani::unwind(@U_ESC@)]
#[kani::stub(std::string::String::push, stub_push_log)]
fn escapes() {
    const N: usize = @N_ESC@;
    let inp = any_input::<N, 13>(&T_ESC);
    check_escapes::<N>(&inp);
}

/// texts `\` `x` d2 d3 t, cut to any length <= 5: d2, d3 over T_HEX, t over T_ESC
/// kani::any() order: len, d2 index, d3 index, t index
const T_HEX: [char; 7] = ['a', '7', 'F', '+', 'é', 'x', 'g'];
#[cfg(feature = "h_escapes_hex")]
#[kani::proof]
#[kani::stub(std::vec::Vec::push, stub_vec_push)]
#[kani::unwind(7)]
#[kani::stub(std::string::String::push, stub_push_log)]
fn escapes_hex() {
    let len: u8 = kani::any();
    kani::assume(len <= 5);
    let inp = Input::<5> { cs: ['\\', 'x', pick(&T_HEX), pick(&T_HEX), pick(&T_ESC)], len: len as usize };
    check_escapes::<5>(&inp);
}

// ================================================================== C30.lex.handle_num.post
#[cfg(feature = "h_handle_num_post")]
#[kani::proof]
#[kani::stub(std::vec::Vec::push, stub_vec_push)]
#[kani::unwind(@U_NUM@)]
#[kani::stub(std::string::String::push, stub_string_push)]
#[kani::stub(core::str::count::count_chars, stub_count_chars)]
fn handle_num_post() {
    const N: usize = @N_NUM@;
    let inp = any_input::<N, 13>(&T_NUM);
    let k: u8 = kani::any();
    let k = k as usize;
    kani::assume(k < inp.len);
    // precondition from the only call site: start_of_number(current_char())
    kani::assume(inp.cs[k].is_ascii_digit());
    let mut lx = mk_lexer(&inp);
    lx.index = k;
    lx.handle_num();
    // spec: literal = [0-9_]+ ( '.' [0-9_]* )?  (maximal munch); text = its digits in order,
    // `_` removed, the `.` kept; IntLit iff there is no `.`; span covers exactly the literal
    let mut want = [0u8; N];
    let mut wn = 0;
    let mut p = k;
    let mut dot = false;
    while p < inp.len && (inp.cs[p].is_ascii_digit() || inp.cs[p] == '_') {
        if inp.cs[p] != '_' {
            want[wn] = inp.cs[p] as u8;
            wn += 1;
        }
        p += 1;
    }
    if p < inp.len && inp.cs[p] == '.' {
        dot = true;
        want[wn] = b'.';
        wn += 1;
        p += 1;
        while p < inp.len && (inp.cs[p].is_ascii_digit() || inp.cs[p] == '_') {
            if inp.cs[p] != '_' {
                want[wn] = inp.cs[p] as u8;
                wn += 1;
            }
            p += 1;
        }
    }
    kani::cover!(dot && wn >= 3, "reachable: float literal");
    kani::cover!(!dot && p - k > wn, "reachable: int literal with `_`");
    assert!(lx.tokens.len() == 1, "C30.handle_num: exactly one token");
    let t = &lx.tokens[0];
    let text: &String = match &t.kind {
        TokenKind::IntLit(s) => {
            assert!(!dot, "C30.handle_num: IntLit iff no decimal point");
            s
        }
        TokenKind::FloatLit(s) => {
            assert!(dot, "C30.handle_num: FloatLit iff decimal point");
            s
        }
        _ => {
            assert!(false, "C30.handle_num: token is a numeric literal");
            return;
        }
    };
    let b = text.as_bytes();
    assert!(b.len() == wn, "C30.handle_num: text = digits with `_` removed (length)");
    let mut i = 0;
    while i < N {
        if i < wn {
            assert!(b[i] == want[i], "C30.handle_num: text = digits with `_` removed");
        }
        i += 1;
    }
    // the literal is ASCII, so its length is the same in chars and bytes; where it starts is C33's business
    assert!(t.span.lo <= t.span.hi && t.span.hi - t.span.lo == p - k, "C30.handle_num: span is as long as the literal");
    assert!(lx.index == p, "C30.handle_num: cursor just after the literal");
}

// ================================================================== C29 comments (lifted '/' arm)
// `arm_slash` is the `'/' => { .. }` arm of tokenize_file, cut from the real file by the
// slicer on every run and wrapped as `fn arm_slash(lexer: &mut Lexer) { BODY }` (appended
// below by __init__.py).  The spec: from `//` the cursor lands on the next newline (or end),
// from `/*` just after the FIRST `*/` at or after i+2 (or at/after the end if there is none);
// no token and no diagnostic is produced -- exactly the effect of the `' '` arm repeated.

#[cfg(feature = "h_line_comment_skip")]
#[kani::proof]
#[kani::stub(std::vec::Vec::push, stub_vec_push)]
#[kani::unwind(@U_CMT@)]
fn line_comment_skip() {
    const N: usize = @N_CMT@;
    let inp = any_input::<N, 9>(&T_CMT);
    // text = "//" ++ body
    let mut a = ['\0'; N + 2];
    a[0] = '/';
    a[1] = '/';
    let mut i = 0;
    while i < N {
        a[i + 2] = inp.cs[i];
        i += 1;
    }
    let total = inp.len + 2;
    let mut v = a.to_vec();
    v.truncate(total);
    let mut lx = lexer_on(v);
    arm_slash(&mut lx);
    let mut end = 2;
    while end < total && inp.cs[end - 2] != '\n' {
        end += 1;
    }
    kani::cover!(end < total && end > 2, "reachable: comment ended by newline");
    kani::cover!(end == total && total == N + 2, "reachable: comment ended by end of input");
    assert!(lx.index == end, "C29.line_comment: cursor lands on the next newline or the end of input");
    assert!(lx.tokens.len() == 0, "C29.line_comment: no token is produced for a comment");
}

#[cfg(feature = "h_block_comment_skip")]
#[kani::proof]
#[kani::stub(std::vec::Vec::push, stub_vec_push)]
#[kani::unwind(@U_CMT@)]
fn block_comment_skip() {
    const N: usize = @N_CMT@;
    let inp = any_input::<N, 9>(&T_CMT);
    // text = "/*" ++ cs[..len]   (the comment body, its terminator if any, and what follows)
    let mut a = ['\0'; N + 2];
    a[0] = '/';
    a[1] = '*';
    let mut i = 0;
    while i < N {
        a[i + 2] = inp.cs[i];
        i += 1;
    }
    let total = inp.len + 2;
    let mut v = a.to_vec();
    v.truncate(total);
    let mut lx = lexer_on(v);
    arm_slash(&mut lx);
    // first "*/" at or after position 2
    let mut close = usize::MAX;
    let mut j = 0;
    while j + 1 < N {
        if close == usize::MAX && j + 1 < inp.len && inp.cs[j] == '*' && inp.cs[j + 1] == '/' {
            close = j + 2;
        }
        j += 1;
    }
    kani::cover!(close != usize::MAX && close > 3 && close + 2 < total, "reachable: terminated comment with body and tail");
    kani::cover!(close == usize::MAX && total == N + 2, "reachable: unterminated comment");
    if close != usize::MAX {
        assert!(lx.index == close + 2, "C29.block_comment: cursor lands just after the first `*/`");
    } else {
        assert!(lx.index >= total, "C29.block_comment: an unterminated comment extends to the end of input");
    }
    assert!(lx.tokens.len() == 0, "C29.block_comment: no token is produced for a comment");
}

// ================================================================== C04.lex.tokenize.total (modular)
// tokenize_file's own text (shebang skip, main loop, every arm, emit) is checked with its
// callees replaced by their contracts -- each contract is an obligation of this unit:
//   Lexer::handle_num           <- C30.lex.handle_num.post   (one Int/FloatLit token over the maximal literal)
//   scan_for_unescaped_delim    <- C30.lex.delim_scan.post   (first unescaped delimiter)
//   process_escapes_into        <- C30.lex.escapes.post      (reads its slice, may push diagnostics)
//   handle_multiline_string     <- C04.lex.multiline.frame   (one StringLit token, cursor within the text)
//   TokenKind::keyword_from_str <- C04.lex.keyword_table     (Some(k) only for k's own spelling)
//   Lexer::new                  <- meaning of `source.chars().collect()` (trusted std)
//   is_poly_ident               <- its doc comment (`T, U, V, T2, T123`), ASCII identifiers only
// Literal *contents* are dropped by the stubs: no clause below observes them.

fn stub_process_escapes(chars: &[char], ctx: &mut StaticsContext, file_id: FileId) -> String {
    if chars.len() > 0 && kani::any() {
        ctx.errors.push(Error::UnrecognizedEscapeSequence(file_id, Span { lo: 0, hi: 1 }));
    }
    String::new()
}

fn stub_multiline(lexer: &mut Lexer, ctx: &mut StaticsContext, file_id: FileId) {
    let lo = lexer.index;
    let adv: u8 = kani::any();
    let hi = lo + adv as usize;
    kani::assume(lo + 3 <= hi && hi <= lexer.chars.len());
    if kani::any() {
        ctx.errors.push(Error::UnrecognizedEscapeSequence(file_id, Span { lo: 0, hi: 1 }));
    }
    lexer.tokens.push(Token { kind: TokenKind::StringLit(String::new()), span: Span { lo, hi } });
    lexer.index = hi;
}

fn stub_handle_num(lx: &mut Lexer) {
    let n = lx.chars.len();
    let k = lx.index;
    let mut p = k;
    let mut dot = false;
    while p < n && (lx.chars[p].is_ascii_digit() || lx.chars[p] == '_') {
        p += 1;
    }
    if p < n && lx.chars[p] == '.' {
        dot = true;
        p += 1;
        while p < n && (lx.chars[p].is_ascii_digit() || lx.chars[p] == '_') {
            p += 1;
        }
    }
    let kind = if dot { TokenKind::FloatLit(String::new()) } else { TokenKind::IntLit(String::new()) };
    lx.tokens.push(Token { kind, span: Span { lo: k, hi: p } });
    lx.index = p;
}

fn stub_scan(lexer: &Lexer, start: usize, delim: &[char], stop_at_newline: bool) -> Option<usize> {
    assert!(delim.len() == 1 && !stop_at_newline, "harness bound: scan contract covers single-char delimiters only");
    let n = lexer.chars.len();
    let base = lexer.index;
    let mut p = start;
    while base + p < n {
        if lexer.chars[base + p] == delim[0] {
            let mut k = 0;
            while p - k > start && lexer.chars[base + p - k - 1] == '\\' {
                k += 1;
            }
            if k % 2 == 0 {
                return Some(p);
            }
        }
        p += 1;
    }
    None
}

/// Lexer::new(source) by its meaning (`source.chars().collect()`, trusted std): the lexer
/// over the harness's char sequence.  (String -> Vec<char> is out of CBMC's reach.)
static mut TOK_IN: [char; 8] = ['\0'; 8];
static mut TOK_LEN: usize = 0;
fn stub_lexer_new(_source: &str) -> Lexer {
    let mut v = unsafe { TOK_IN }.to_vec();
    v.truncate(unsafe { TOK_LEN });
    lexer_on(v)
}

fn stub_keyword_from_str(s: &str) -> Option<TokenKind> {
    // no keyword can be spelled over the harness alphabet {a, x, n, 7, _}
    let b = s.as_bytes();
    let mut i = 0;
    while i < b.len() {
        assert!(matches!(b[i], b'a' | b'x' | b'n' | b'7' | b'_'), "harness bound: identifier outside the alphabet");
        i += 1;
    }
    None
}

fn stub_is_poly_ident(ident: &str) -> bool {
    let b = ident.as_bytes();
    if b.len() == 0 || !b[0].is_ascii_uppercase() {
        return false;
    }
    let mut i = 1;
    while i < b.len() {
        assert!(b[i].is_ascii(), "harness bound: non-ASCII identifier");
        if b[i].is_ascii_alphabetic() {
            return false;
        }
        i += 1;
    }
    true
}

#[cfg(feature = "h_tokenize_total")]
#[kani::proof]
#[kani::stub(std::vec::Vec::push, stub_vec_push)]
#[kani::unwind(@U_TOK@)]
#[kani::stub(std::string::String::push, stub_string_push)]
#[kani::stub(core::str::count::count_chars, stub_count_chars)]
#[kani::stub(process_escapes_into, stub_process_escapes)]
#[kani::stub(handle_multiline_string, stub_multiline)]
#[kani::stub(Lexer::handle_num, stub_handle_num)]
#[kani::stub(scan_for_unescaped_delim, stub_scan)]
#[kani::stub(TokenKind::keyword_from_str, stub_keyword_from_str)]
#[kani::stub(is_poly_ident, stub_is_poly_ident)]
#[kani::stub(Lexer::new, stub_lexer_new)]
fn tokenize_total() {
    const N: usize = @N_TOK@;
    let inp = any_input::<N, 16>(&T_ALL);
    unsafe {
        let mut i = 0;
        while i < N {
            TOK_IN[i] = inp.cs[i];
            i += 1;
        }
        TOK_LEN = inp.len;
    }
    // the source text itself is only read by Lexer::new, which is replaced by its meaning
    let mut ctx = mk_ctx(String::new());
    let toks = tokenize_file(&mut ctx, 0);
    let n = toks.len();
    kani::cover!(n == N + 1, "reachable: one token per char");
    kani::cover!(ctx.errors.len() > 0, "reachable: diagnostic produced");
    assert!(n >= 1 && n <= N + 1, "C04.tokenize: at least the Eof token, at most one token per char");
    assert!(matches!(toks[n - 1].kind, TokenKind::Eof), "C04.tokenize: the last token is Eof");
    let mut i = 0;
    let mut prev_hi = 0;
    while i < N + 1 {
        if i < n {
            let sp = toks[i].span;
            assert!(sp.lo <= sp.hi, "C04.tokenize: span lo <= hi");
            assert!(prev_hi <= sp.lo, "C04.tokenize: spans are non-decreasing and do not overlap");
            assert!(i + 1 == n || !matches!(toks[i].kind, TokenKind::Eof), "C04.tokenize: Eof only at the end");
            prev_hi = sp.hi;
        }
        i += 1;
    }
    core::mem::forget(toks);
    core::mem::forget(ctx);
}

/// every keyword is recognised from its own spelling and is as long as it (concrete, loop over the table)
#[cfg(feature = "h_keyword_table")]
#[kani::proof]
#[kani::unwind(35)]
#[kani::stub(core::str::count::count_chars, stub_count_chars)]
fn keyword_table() {
    const KW: [&str; 33] = [
        "let", "var", "type", "interface", "outputtype", "implement", "impl", "extend", "use", "as",
        "except", "fn", "match", "and", "or", "not", "break", "continue", "return", "while", "for", "in",
        "if", "else", "task", "nil", "true", "false", "int", "float", "bool", "string", "void",
    ];
    let mut i = 0;
    while i < KW.len() {
        let w = KW[i];
        match TokenKind::keyword_from_str(w) {
            Some(k) => {
                assert!(k.is_keyword(), "C04.keyword_table: keyword_from_str yields keywords only");
                assert!(k.nchars() == w.len(), "C04.keyword_table: a keyword token is as long as its spelling");
            }
            None => assert!(false, "C04.keyword_table: every keyword is recognised from its spelling"),
        }
        i += 1;
    }
    kani::cover!(i == 33, "reachable: whole table visited");
}

// ================================================================== C33.lex.span.byte_offsets
// Downstream consumers read token spans as BYTE offsets into FileData::source:
// parse.rs copies span.lo/hi into Location{lo,hi}; Location::range() feeds codespan Label
// ranges (statics/error.rs make_diagnostic); FileData::line_number_for_index / line_starts are
// built from source.match_indices('\n') (bytes); Error::UnrecognizedToken(file, index) is
// rendered as index..index+1.  Hence (from C33, not from the lexer): a token emitted while
// the cursor stands on the k-th char of the source must get the span [b, b + its byte length)
// where b is the byte offset of that char; both ends are char boundaries inside the source.
// Function-level: the lexer state is what Lexer::new(&source) establishes by definition of
// str::chars (chars = the scalar values of the source, in order; trusted std), the cursor
// stands on char k (the main loop's `index` always is a count of consumed chars), then the
// real emit / handle_num run.  Byte offsets of char positions are computed by `byte_off`.
#[cfg(feature = "h_span_byte_offsets")]
#[kani::proof]
#[kani::stub(std::vec::Vec::push, stub_vec_push)]
#[kani::unwind(@U_SPAN@)]
#[kani::stub(std::string::String::push, stub_string_push)]
#[kani::stub(core::str::count::count_chars, stub_count_chars)]
fn span_byte_offsets() {
    const N: usize = @N_SPAN@;
    let inp = any_input::<N, 11>(&T_SPAN);
    let k: u8 = kani::any();
    let k = k as usize;
    kani::assume(k < inp.len);
    let c = inp.cs[k];
    kani::assume(c == '*' || c == '\n' || c == '7');
    let mut lx = mk_lexer(&inp);
    lx.index = k;
    // the three dispatches below are the corresponding lines of tokenize_file
    if c == '*' {
        lx.emit(TokenKind::Star);
    } else if c == '\n' {
        lx.emit(TokenKind::Newline);
    } else {
        lx.handle_num();
    }
    assert!(lx.tokens.len() == 1);
    let sp = lx.tokens[0].span;
    // spec: the token's chars are [k, k2); all of them are ASCII here
    let mut k2 = k + 1;
    if c == '7' {
        while k2 < inp.len && (inp.cs[k2] == '7') {
            k2 += 1;
        }
    }
    let blen = byte_off(&inp, inp.len);
    kani::cover!(byte_off(&inp, k) > k, "reachable: token preceded by multi-byte text");
    kani::cover!(byte_off(&inp, k) == k && k > 0, "reachable: token preceded by ASCII text only");
    assert!(sp.lo <= sp.hi && sp.hi <= blen, "C33.span: token span lies within the source (byte offsets)");
    assert!(sp.lo == byte_off(&inp, k), "C33.span: span.lo is the byte offset of the token's first char (a char boundary)");
    assert!(sp.hi == byte_off(&inp, k2), "C33.span: span.hi is the byte offset just after the token's last char (a char boundary)");
    core::mem::forget(lx);
}

// ================================================================== C33.lex.span.ascii
// The same postcondition as C33.lex.span.byte_offsets restricted to ASCII-only sources, where a
// char index IS a byte offset -- so it holds on a tree that still has the char-vs-byte defect
// and isolates every OTHER way a span can be wrong (e.g. a numeric literal whose `_` separators
// are consumed but not covered).  Alphabet: digit, `_`, `.`, letter, operators `*` `=` `-` `/`,
// both quotes, backslash, newline, space.
const T_ASCII: [char; 13] = ['7', '_', '.', 'a', '*', '=', '-', '/', '"', '\'', '\\', '\n', ' '];
#[cfg(feature = "h_span_ascii")]
#[kani::proof]
#[kani::stub(std::vec::Vec::push, stub_vec_push)]
#[kani::unwind(@U_SPAN@)]
#[kani::stub(std::string::String::push, stub_string_push)]
#[kani::stub(core::str::count::count_chars, stub_count_chars)]
fn span_ascii() {
    const N: usize = @N_SPAN@;
    let inp = any_input::<N, 13>(&T_ASCII);
    let k: u8 = kani::any();
    let k = k as usize;
    kani::assume(k < inp.len);
    let c = inp.cs[k];
    kani::assume(c == '*' || c == '\n' || c == '7');
    let mut lx = mk_lexer(&inp);
    lx.index = k;
    // the dispatches below are the corresponding lines of tokenize_file
    let mut k2 = k + 1;
    if c == '*' {
        if let Some('=') = lx.peek_char(1) {
            lx.emit(TokenKind::StarEq);
            k2 = k + 2;
        } else {
            lx.emit(TokenKind::Star);
        }
    } else if c == '\n' {
        lx.emit(TokenKind::Newline);
    } else {
        lx.handle_num();
        // spec: the literal is the maximal [0-9_]+ ( '.' [0-9_]* )? -- separators included
        while k2 < inp.len && (inp.cs[k2].is_ascii_digit() || inp.cs[k2] == '_') {
            k2 += 1;
        }
        if k2 < inp.len && inp.cs[k2] == '.' {
            k2 += 1;
            while k2 < inp.len && (inp.cs[k2].is_ascii_digit() || inp.cs[k2] == '_') {
                k2 += 1;
            }
        }
    }
    assert!(lx.tokens.len() == 1);
    let sp = lx.tokens[0].span;
    kani::cover!(c == '7' && k2 > k + 2 && k > 0, "reachable: multi-char literal after other text");
    kani::cover!(c == '*' && k2 == k + 2, "reachable: two-char operator");
    assert!(sp.lo == k, "C33.span_ascii: span.lo is the offset of the token's first char");
    assert!(sp.hi == k2, "C33.span_ascii: span.hi is the offset just after the token's last char (every consumed char is covered)");
    assert!(lx.index == k2, "C33.span_ascii: the cursor moves to the end of the span");
    core::mem::forget(lx);
}
