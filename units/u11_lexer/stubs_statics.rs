// R6 context stub of `crate::statics` -- exactly the names lexer.rs uses:
//   use crate::statics::{Error, StaticsContext};
//   ctx.file_db.get(file_id).unwrap()  -> &FileData, field `source: String`
//   ctx.errors.push(Error::UnrecognizedToken(file_id, usize))
//   ctx.errors.push(Error::UnrecognizedEscapeSequence(file_id, Span))
// Field names, variant names and payload types are those of abra_core/src/statics.rs and
// abra_core/src/ast.rs; everything else of the real StaticsContext is dropped.
use crate::ast::FileId;
use crate::parse::Span;

pub(crate) struct FileData {
    pub(crate) source: String,
}

pub(crate) struct FileDatabase {
    pub(crate) files: Vec<FileData>,
}

#[derive(Debug)]
pub(crate) struct FileMissing;

impl FileDatabase {
    pub(crate) fn get(&self, file_id: FileId) -> Result<&FileData, FileMissing> {
        self.files.get(file_id as usize).ok_or(FileMissing)
    }
}

pub(crate) enum Error {
    UnrecognizedToken(FileId, usize),
    UnrecognizedEscapeSequence(FileId, Span),
}

pub(crate) struct StaticsContext {
    pub(crate) file_db: FileDatabase,
    pub(crate) errors: Vec<Error>,
}
