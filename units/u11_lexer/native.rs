// U11 exhaustive native driver.  `include!`d into a child module of the module that contains
// /repo/abra_core/src/parse/lexer.rs verbatim (same wrapper and R6 stubs as the Kani crate), built
// by rustc with overflow checks and debug assertions ON.  It runs the REAL tokenize_file on
// EVERY text of at most N atoms over ATOMS, catching panics with catch_unwind, and prints one
// JSON object.  This is bounded exhaustive execution (a stand-in where CBMC cannot reach:
// whole tokenize_file exceeds 600 s at 2 symbolic chars), never reported as a proof.

use crate::statics::{FileData, FileDatabase};
use std::cell::RefCell;
use std::collections::BTreeMap;
use std::panic::{self, AssertUnwindSafe};
use std::sync::atomic::{AtomicUsize, Ordering};
use std::sync::{Arc, Mutex};

/// Atom alphabet: every scanner of lexer.rs is reachable within a few atoms -- triple-quoted
/// strings, both one-line string forms, escapes (`\`, `\x`), line continuation (`\` newline),
/// newline, blanks (space, tab: multiline indentation), identifiers (`a`, `_`, poly-ident `T`),
/// numbers (`7`, `_`, `.`, `-`), comments (`/`, `*`), two-char operators (`=`, `-`, `.`), the
/// shebang line (`#!`), a 2-byte and a 4-byte scalar, a bracket.
pub(crate) const ATOMS: &[&str] = &[
    "\"\"\"", "\"", "'", "\\", "\n", " ", "\t", "a", "7", "_", ".", "/", "*", "-", "=", "é", "😀", "\\x", "{",
    "#!", "T",
];

thread_local! {
    static LAST: RefCell<String> = RefCell::new(String::new());
}

#[derive(Default)]
struct Acc {
    texts: u64,
    panics: u64,
    violations: u64,
    span_violations: u64,
    ascii_texts: u64,
    ml_texts: u64,
    ml_panics: u64,
    ml_violations: u64,
    tokens: u64,
    diagnostics: u64,
    // class (kind + message + location) -> (shortest failing text as atom indices, count, count among `"""`-texts)
    classes: BTreeMap<String, (Vec<usize>, u64, u64)>,
}

impl Acc {
    fn record(&mut self, key: String, atoms: &[usize], ml: bool) {
        let e = self.classes.entry(key).or_insert_with(|| (atoms.to_vec(), 0, 0));
        if (atoms.len(), atoms) < (e.0.len(), &e.0[..]) {
            e.0 = atoms.to_vec();
        }
        e.1 += 1;
        if ml {
            e.2 += 1;
        }
    }

    fn merge(&mut self, o: Acc) {
        self.texts += o.texts;
        self.panics += o.panics;
        self.violations += o.violations;
        self.span_violations += o.span_violations;
        self.ascii_texts += o.ascii_texts;
        self.ml_texts += o.ml_texts;
        self.ml_panics += o.ml_panics;
        self.ml_violations += o.ml_violations;
        self.tokens += o.tokens;
        self.diagnostics += o.diagnostics;
        for (k, (a, c, m)) in o.classes {
            let e = self.classes.entry(k).or_insert_with(|| (a.clone(), 0, 0));
            if (a.len(), &a[..]) < (e.0.len(), &e.0[..]) {
                e.0 = a;
            }
            e.1 += c;
            e.2 += m;
        }
    }
}

/// The C04 clauses for one text.  Err("panic: ..") / Err("violation: ..").
fn check(text: &str, acc: &mut Acc) -> Result<(), String> {
    let mut ctx = StaticsContext {
        file_db: FileDatabase { files: vec![FileData { source: text.to_string() }] },
        errors: vec![],
    };
    let r = panic::catch_unwind(AssertUnwindSafe(|| tokenize_file(&mut ctx, 0)));
    let toks = match r {
        Ok(t) => t,
        Err(_) => return Err(format!("panic: {}", LAST.with(|l| l.borrow().clone()))),
    };
    acc.tokens += toks.len() as u64;
    acc.diagnostics += ctx.errors.len() as u64;
    let n = toks.len();
    if n == 0 || !matches!(toks[n - 1].kind, TokenKind::Eof) {
        return Err("violation: the last token is not Eof".to_string());
    }
    let mut prev_lo = 0;
    let mut prev_hi = 0;
    for (i, t) in toks.iter().enumerate() {
        if i + 1 < n && matches!(t.kind, TokenKind::Eof) {
            return Err("violation: Eof token before the end".to_string());
        }
        if t.span.lo > t.span.hi {
            return Err("violation: span with lo > hi".to_string());
        }
        if t.span.lo < prev_lo || t.span.lo < prev_hi {
            return Err("violation: spans decrease or overlap".to_string());
        }
        prev_lo = t.span.lo;
        prev_hi = t.span.hi;
    }
    // C33 clause, ASCII texts only (char index == byte offset, so it is independent of the
    // char-vs-byte finding): the source text under a token's span is the token's text, and a
    // numeric literal's span covers every char the literal consumed (`_` separators included).
    if text.is_ascii() {
        let b = text.as_bytes();
        for t in toks[..n - 1].iter() {
            let (lo, hi) = (t.span.lo, t.span.hi);
            if hi > b.len() {
                return Err("span: a token's span ends beyond the source".to_string());
            }
            let sl = &text[lo..hi];
            let ok = match &t.kind {
                TokenKind::IntLit(s) | TokenKind::FloatLit(s) => {
                    let spelled: String = sl.chars().filter(|c| *c != '_').collect();
                    let is_int = matches!(t.kind, TokenKind::IntLit(_));
                    let next = b.get(hi).copied();
                    spelled == *s
                        && !matches!(next, Some(b'0'..=b'9') | Some(b'_'))
                        && !(is_int && next == Some(b'.'))
                }
                TokenKind::Ident(s) | TokenKind::PolyIdent(s) => sl == s,
                TokenKind::StringLit(_) => sl.starts_with('"') || sl.starts_with('\''),
                TokenKind::Newline => sl == "\n",
                TokenKind::Eof => true,
                k => sl == k.discriminant().as_str(),
            };
            if !ok {
                return Err(format!(
                    "span: the source text under the span of a `{}` token is not that token's text",
                    t.kind.discriminant().as_str()
                ));
            }
        }
    }
    for e in ctx.errors.iter() {
        // exhaustive on purpose: a new diagnostic kind coming out of the lexer must be looked at
        match e {
            Error::UnrecognizedToken(_, _) | Error::UnrecognizedEscapeSequence(_, _) => {}
        }
    }
    Ok(())
}

/// all texts of exactly `len` atoms whose first atom is `first` (len >= 1), or the empty text
fn run_task(len: usize, first: usize, acc: &mut Acc) {
    let a = ATOMS.len();
    let mut idx = vec![0usize; len];
    if len > 0 {
        idx[0] = first;
    }
    let mut text = String::new();
    loop {
        text.clear();
        for &i in &idx {
            text.push_str(ATOMS[i]);
        }
        let ml = len > 0 && idx[0] == 0;
        acc.texts += 1;
        if text.is_ascii() {
            acc.ascii_texts += 1;
        }
        if ml {
            acc.ml_texts += 1;
        }
        if let Err(what) = check(&text, acc) {
            let is_panic = what.starts_with("panic");
            if is_panic {
                acc.panics += 1;
                if ml {
                    acc.ml_panics += 1;
                }
            } else if what.starts_with("span") {
                acc.span_violations += 1;
            } else {
                acc.violations += 1;
                if ml {
                    acc.ml_violations += 1;
                }
            }
            acc.record(what, &idx, ml);
        }
        // odometer over positions 1..len
        let mut p = len;
        loop {
            if p <= 1 {
                return;
            }
            p -= 1;
            idx[p] += 1;
            if idx[p] < a {
                break;
            }
            idx[p] = 0;
        }
    }
}

fn jstr(s: &str) -> String {
    let mut o = String::from("\"");
    for c in s.chars() {
        match c {
            '"' => o.push_str("\\\""),
            '\\' => o.push_str("\\\\"),
            '\n' => o.push_str("\\n"),
            '\t' => o.push_str("\\t"),
            '\r' => o.push_str("\\r"),
            c if (c as u32) < 0x20 => o.push_str(&format!("\\u{:04x}", c as u32)),
            c => o.push(c),
        }
    }
    o.push('"');
    o
}

pub(crate) fn main() {
    let args: Vec<String> = std::env::args().collect();
    let n: usize = args.get(1).and_then(|s| s.parse().ok()).unwrap_or(4);
    let jobs: usize = args.get(2).and_then(|s| s.parse().ok()).unwrap_or(4).max(1);
    panic::set_hook(Box::new(|info| {
        let msg = if let Some(s) = info.payload().downcast_ref::<&str>() {
            s.to_string()
        } else if let Some(s) = info.payload().downcast_ref::<String>() {
            s.clone()
        } else {
            "<non-string panic payload>".to_string()
        };
        let loc = info.location().map(|l| format!("{}:{}:{}", l.file(), l.line(), l.column())).unwrap_or_default();
        LAST.with(|l| *l.borrow_mut() = format!("{} @ {}", msg, loc));
    }));
    // tasks: (0, 0) = the empty text; (len, first) for len in 1..=n -- longest first for balance
    let mut tasks: Vec<(usize, usize)> = vec![];
    for len in (1..=n).rev() {
        for first in 0..ATOMS.len() {
            tasks.push((len, first));
        }
    }
    tasks.push((0, 0));
    let tasks = Arc::new(tasks);
    let next = Arc::new(AtomicUsize::new(0));
    let total = Arc::new(Mutex::new(Acc::default()));
    let mut hs = vec![];
    for _ in 0..jobs {
        let (tasks, next, total) = (tasks.clone(), next.clone(), total.clone());
        hs.push(std::thread::spawn(move || {
            let mut acc = Acc::default();
            loop {
                let k = next.fetch_add(1, Ordering::SeqCst);
                if k >= tasks.len() {
                    break;
                }
                run_task(tasks[k].0, tasks[k].1, &mut acc);
            }
            total.lock().unwrap().merge(acc);
        }));
    }
    for h in hs {
        h.join().unwrap();
    }
    let acc = std::mem::take(&mut *total.lock().unwrap());
    let mut out = String::new();
    out.push_str(&format!(
        "{{\"n\": {}, \"atoms\": [{}], \"texts\": {}, \"panics\": {}, \"violations\": {}, \"span_violations\": {}, \"ascii_texts\": {}, \"ml_texts\": {}, \"ml_panics\": {}, \"ml_violations\": {}, \"tokens\": {}, \"diagnostics\": {}, \"classes\": [",
        n,
        ATOMS.iter().map(|a| jstr(a)).collect::<Vec<_>>().join(", "),
        acc.texts, acc.panics, acc.violations, acc.span_violations, acc.ascii_texts, acc.ml_texts, acc.ml_panics, acc.ml_violations, acc.tokens, acc.diagnostics
    ));
    let mut first = true;
    for (k, (atoms, count, ml)) in acc.classes.iter() {
        if !first {
            out.push_str(", ");
        }
        first = false;
        let text: String = atoms.iter().map(|&i| ATOMS[i]).collect();
        out.push_str(&format!(
            "{{\"what\": {}, \"text\": {}, \"natoms\": {}, \"count\": {}, \"ml_count\": {}}}",
            jstr(k), jstr(&text), atoms.len(), count, ml
        ));
    }
    out.push_str("]}");
    println!("{}", out);
}
