// R6 context stub of `crate::ast` -- exactly the one name lexer.rs imports from it.
// Real definition (abra_core/src/ast.rs): `pub type FileId = u32;`
pub type FileId = u32;
