"""U11: the lexer.  /repo/abra_core/src/parse/lexer.rs is copied VERBATIM (file slice, rule
R6) from /repo's current working tree into a scratch Kani crate as `src/parse/lexer_real.rs`;
`src/parse/lexer.rs` is the two-line wrapper

    include!("lexer_real.rs");
    #[cfg(kani)] mod u11 { use super::*; include!("u11_harness.rs"); }

so the harnesses live in a child module of the real file's module (private items visible)
and the real text is byte-identical on disk (its sha256 is recorded per obligation).
`crate::ast::FileId` and `crate::statics::{Error, StaticsContext}` resolve to the
hand-written stubs stubs_ast.rs / stubs_statics.rs (exactly the names the file uses).
The one lifted slice is the `'/' => { .. }` arm of tokenize_file (comments), cut by name on
every run and wrapped as `fn arm_slash(lexer: &mut Lexer)`; the same arm is also exercised
in place by the whole-tokenize harnesses.

Back end: Kani/CBMC, every obligation BOUNDED (input length, alphabet).
"""
import hashlib
import os
import re
import shutil
import subprocess
import time

import slicer as S
import engine as E
import abra_cli

HERE = os.path.dirname(os.path.abspath(__file__))
UNIT = "U11-lexer"
LEX = 'abra_core/src/parse/lexer.rs'
MOD = "parse::lexer::u11::"

CARGO = """[package]
name = "u11lex"
version = "0.1.0"
edition = "2024"
[dependencies]
strum = { version = "0.27.2", features = ["derive"] }
strum_macros = "0.27.2"
[features]
r7 = []
h_delim_scan = []
h_escapes = []
h_escapes_hex = []
h_handle_num_post = []
h_line_comment_skip = []
h_block_comment_skip = []
h_tokenize_total = []
h_keyword_table = []
h_span_byte_offsets = []
h_span_ascii = []
[lints.rust]
unexpected_cfgs = { level = "allow" }
[workspace]
"""

LIB = """#![feature(allocator_api)]
#![allow(dead_code, unused_imports, unused_variables, unused_mut, unused_assignments, clippy::all)]
pub mod ast;
pub mod statics;
pub mod parse;
pub mod shim {
    /// R7 stand-in for `format!("{d2}{d3}")` (std::fmt is unaffordable in CBMC: indirect
    /// calls through fmt::Argument function pointers): the two chars, in order.
    pub fn two_chars(a: char, b: char) -> String {
        let mut buf = [0u8; 8];
        let n = a.encode_utf8(&mut buf).len();
        let m = b.encode_utf8(&mut buf[n..]).len();
        let mut v: Vec<u8> = Vec::with_capacity(8);
        // SAFETY: n + m <= 8 bytes, two UTF-8 encodings back to back
        unsafe {
            core::ptr::copy_nonoverlapping(buf.as_ptr(), v.as_mut_ptr(), 8);
            v.set_len(n + m);
            String::from_utf8_unchecked(v)
        }
    }
}
"""

R7_OLD = 'u8::from_str_radix(&format!("{d2}{d3}"), 16)'
R7_NEW = 'u8::from_str_radix(&crate::shim::two_chars(d2, d3), 16)'

PARSE = """// stand-in for abra_core/src/parse.rs: only the two lines that concern the lexer
pub(crate) use lexer::Span;
pub(crate) mod lexer;
"""

WRAP = """#[cfg(not(feature = "r7"))]
include!("lexer_real.rs");
#[cfg(feature = "r7")]
include!("lexer_r7.rs");
#[cfg(kani)]
mod u11 {
    use super::*;
    include!("u11_harness.rs");
}
"""

# alphabets (must mirror harness.rs; used to decode concrete playback values)
T_ALL = ['a', '7', '_', '.', '/', '*', '"', "'", '\\', '\n', ' ', 'é', '😀', 'x', 'n', '+']
T_CMT = ['*', '/', '\n', 'a', 'é', ' ', '\\', '"', "'"]
T_ESC = ['\\', 'x', 'n', '"', "'", 'a', '7', '+', 'é', '😀', '\n', '*', '/']
T_NUM = ['7', '_', '.', 'a', ' ', 'é', '-', '\\', '"', "'", '\n', '*', '/']
T_SPAN = ['*', '7', 'a', ' ', '\n', 'é', '😀', '\\', '"', "'", '/']
T_HEX = ['a', '7', 'F', '+', 'é', 'x', 'g']
T_ASCII = ['7', '_', '.', 'a', '*', '=', '-', '/', '"', "'", '\\', '\n', ' ']

# bounds per tier: N = max input length in chars, U = loop unwinding
BOUNDS = {
    "quick": dict(N_SCAN=4, U_SCAN=7, N_ESC=3, U_ESC=5, N_NUM=4, U_NUM=6, N_CMT=5, U_CMT=9,
                  N_TOK=2, U_TOK=5, N_SPAN=4, U_SPAN=6, SCAP=24),
    "thorough": dict(N_SCAN=6, U_SCAN=9, N_ESC=5, U_ESC=7, N_NUM=6, U_NUM=8, N_CMT=7, U_CMT=11,
                     N_TOK=3, U_TOK=6, N_SPAN=6, U_SPAN=8, SCAP=32),
}


def lift_slash_arm():
    """The `'/' => { BODY }` arm of tokenize_file as `fn arm_slash(lexer: &mut Lexer) { BODY }`."""
    fn = S.item(LEX, r'pub\(crate\) fn tokenize_file\(')
    head, guard, body, is_block = S.match_arm(fn, r"'/' =>", ' ' * 12)
    if guard or not is_block or head != "'/'":
        raise S.SliceError("lexer '/' arm has an unexpected shape: %r" % head)
    # the arm must talk about the lexer only through the local `lexer`
    if re.search(r'\b(ctx|file_id|file_data)\b', body):
        raise S.SliceError("lexer '/' arm mentions ctx/file_id: lifting would change its meaning")
    text = ("\n// ---- real arm `'/' => {..}` of tokenize_file (lexer.rs), lifted verbatim ----\n"
            "#[cfg(any(feature = \"h_line_comment_skip\", feature = \"h_block_comment_skip\"))]\n"
            "fn arm_slash(lexer: &mut Lexer) {%s}\n" % body)
    return text, S.sha(body)


def build(dirpath, tier):
    """Write the scratch crate: src/parse/lexer_real.rs = lexer.rs byte-for-byte (default
    build); src/parse/lexer_r7.rs = the same text with the single enumerated rewrite R7
    (cargo feature `r7`, used by the escapes obligations only).
    Returns dict(real_sha, arm_sha, bounds, r7_count, crate_uses, unsafe_count)."""
    b = BOUNDS[tier]
    real_path = os.path.join(S.REPO, LEX)
    with open(real_path, 'rb') as f:
        raw = f.read()
    text = raw.decode("utf-8")
    real_sha = hashlib.sha256(raw).hexdigest()[:16]
    os.makedirs(os.path.join(dirpath, "src", "parse"), exist_ok=True)
    with open(os.path.join(dirpath, "src", "parse", "lexer_real.rs"), "wb") as f:
        f.write(raw)  # byte-for-byte
    # R7 copy
    pei = S.item(LEX, r'fn process_escapes_into\(')
    r7_count = pei.count(R7_OLD)
    if r7_count > 1 or (r7_count == 0 and 'format!' in pei):
        raise S.SliceError("R7 anchor %r found %d times in process_escapes_into" % (R7_OLD, r7_count))
    if text.count(R7_OLD) != r7_count:
        raise S.SliceError("R7 anchor occurs outside process_escapes_into")
    with open(os.path.join(dirpath, "src", "parse", "lexer_r7.rs"), "wb") as f:
        f.write(text.replace(R7_OLD, R7_NEW).encode("utf-8"))
    # the logging String::push stub of the escapes harnesses is only sound while the result
    # string `s` is append-only in process_escapes_into
    body = S.fn_parts(pei)[1]
    uses = re.findall(r'\bs\b[^\n]*', re.sub(r'//[^\n]*', '', body))
    for u in uses:
        if not (u.startswith('s.push(') or u.startswith('s = "".to_string();') or u.strip() == 's'):
            raise S.SliceError("process_escapes_into uses its result other than by push: %r" % u)
    # pointer-validity checks are switched off (cost); that is only justified for safe code
    unsafe_count = len(re.findall(r'\bunsafe\b', re.sub(r'//[^\n]*', '', text)))
    if unsafe_count:
        raise S.SliceError("lexer.rs contains `unsafe` (%d): memory-safety checks must not be disabled" % unsafe_count)
    # the names the file imports from the rest of abra_core (R6): refuse silently drifting imports
    crate_uses = sorted(set(re.findall(r'^use (crate::[^;]+);', text, re.M)))
    want = ['crate::ast::FileId', 'crate::statics::{Error, StaticsContext}']
    if crate_uses != want:
        raise S.SliceError("lexer.rs imports changed: %r (stubs cover %r)" % (crate_uses, want))
    arm, arm_sha = lift_slash_arm()
    with open(os.path.join(HERE, "harness.rs"), encoding="utf-8") as f:
        h = f.read()
    for k, v in b.items():
        h = h.replace("@%s@" % k, str(v))
    left = re.findall(r'@[A-Z_]+@', h)
    if left:
        raise E.Undecided("u11: unfilled placeholders %r" % left)
    w = lambda rel, s: open(os.path.join(dirpath, rel), "w", encoding="utf-8").write(s)
    w("Cargo.toml", CARGO)
    lock = os.path.join(S.REPO, "Cargo.lock")
    if os.path.exists(lock):
        shutil.copy(lock, os.path.join(dirpath, "Cargo.lock"))  # pins strum 0.27.2 as in /repo
    w("src/lib.rs", LIB)
    w("src/parse.rs", PARSE)
    w("src/parse/lexer.rs", WRAP)
    w("src/parse/u11_harness.rs", h + arm)
    shutil.copy(os.path.join(HERE, "stubs_ast.rs"), os.path.join(dirpath, "src", "ast.rs"))
    shutil.copy(os.path.join(HERE, "stubs_statics.rs"), os.path.join(dirpath, "src", "statics.rs"))
    return dict(real_sha=real_sha, arm_sha=arm_sha, bounds=b, crate_uses=crate_uses,
                r7_count=r7_count, unsafe_count=unsafe_count, pei_sha=S.sha(pei))


# ------------------------------------------------------------------ back end

KANI_FLAGS = ["-Z", "function-contracts", "-Z", "stubbing", "-Z", "unstable-options",
              "--no-memory-safety-checks"]


def run_batch(crate_dir, harnesses, feature=None, timeout=600, jobs=6, playback=False):
    """ONE `cargo kani` invocation for several harnesses (`-j`, per-harness timeout, results
    written per harness by --output-into-files).  engine.run_kani is not used for the main run
    because it gives every harness its own target dir, i.e. re-compiles strum/syn per harness
    (1-2 min each on a loaded machine); the result dict has the same shape as run_kani's."""
    outdir = os.path.join(crate_dir, "result_output_dir")
    for h in harnesses:
        if os.path.exists(os.path.join(outdir, MOD + h)):
            os.remove(os.path.join(outdir, MOD + h))
    # (`--jobs` requires the terse format: failed checks are listed, covers only counted)
    cmd = ["cargo", "kani"] + KANI_FLAGS + ["--exact", "--output-format", "terse", "--output-into-files",
                                            "--harness-timeout", "%ds" % timeout, "-j", str(max(1, min(jobs, len(harnesses))))]
    feats = ([feature] if feature else []) + ["h_" + h for h in harnesses]
    cmd += ["--features", ",".join(feats)]
    if playback:
        cmd += ["-Z", "concrete-playback", "--concrete-playback=print"]
    for h in harnesses:
        cmd += ["--harness", MOD + h]
    env = E.kani_env()
    # default: target dir inside the scratch crate (removed with it).  U11_TARGET_CACHE=<dir>
    # keeps the third-party build (strum, syn, ...) between runs; the lexer crate itself is
    # always rebuilt because its path and sources are fresh on every run.
    env["CARGO_TARGET_DIR"] = os.environ.get("U11_TARGET_CACHE") or os.path.join(crate_dir, "target")
    t0 = time.time()
    # whole-invocation guard: compile + ceil(n/jobs) rounds of the per-harness timeout
    rounds = (len(harnesses) + jobs - 1) // max(1, jobs)
    p = subprocess.run(["timeout", str(600 + rounds * (timeout + 30))] + cmd, capture_output=True, text=True,
                       cwd=crate_dir, env=env)
    wall = time.time() - t0
    log = p.stdout + "\n" + p.stderr
    if re.search(r'^error(\[E\d+\])?:', log, re.M) and "Checking harness" not in log:
        # The crate does not compile with this feature set (lexer.rs drifted away from a harness
        # or a stub).  Degrade: each harness is cfg-gated by its own cargo feature, so retry them
        # one by one -- only the harnesses that really do not compile become UNDECIDED.
        errs = re.findall(r'^error(?:\[E\d+\])?:[^\n]*(?:\n[^\n]*){0,6}', log, re.M)
        cerr = "scratch crate does not compile with features %s:\n%s" % (",".join(feats), "\n".join(errs)[:2500])
        res = {}
        if len(harnesses) == 1:
            res[harnesses[0]] = dict(status=E.UNDECIDED, failed=[], cover=[], time_s=0.0, raw=cerr, playback=None, compile_error=True)
            return res, " ".join(cmd), wall
        for h in harnesses:
            r1, _, _ = run_batch(crate_dir, [h], feature, timeout, 1, playback)
            res.update(r1)
        return res, " ".join(cmd) + "  [compile error -> retried per harness]", time.time() - t0
    res = {}
    for h in harnesses:
        fp = os.path.join(outdir, MOD + h)
        raw = open(fp, encoding="utf-8", errors="replace").read() if os.path.exists(fp) else ""
        if playback:
            raw += "\n" + log
        failed, cover = [], []
        for m in re.finditer(r'Failed Checks: ([^\n]*)\n\s*File: "([^"]*)", line (\d+), in ([^\n]+)', raw):
            desc = m.group(1).strip()
            if desc.startswith('"') and desc.endswith('"'):
                desc = desc[1:-1]
            failed.append("%s @ %s:%s in %s" % (desc, m.group(2), m.group(3), m.group(4).strip()))
        for m in re.finditer(r'Failed Checks: ([^\n]*)\n(?!\s*File:)', raw):
            failed.append(m.group(1).strip().strip('"'))
        for m in re.finditer(r'Check \d+: ([^\n]+)\n\s*- Status: FAILURE\n\s*- Description: "([^\n]*)"\n(?:\s*- Location: ([^\n]+))?', raw):
            if ".cover." not in m.group(1):
                failed.append("%s @ %s" % (m.group(2).strip('"'), (m.group(3) or "").strip()))
        cm = re.search(r'\*\* (\d+) of (\d+) cover properties satisfied', raw)
        if cm:
            cover.append(("%s of %s cover properties satisfied" % (cm.group(1), cm.group(2)),
                          "SATISFIED" if cm.group(1) == cm.group(2) else "UNSATISFIABLE"))
        tm = re.search(r'Verification Time: ([0-9.]+)s', raw)
        if "VERIFICATION:- SUCCESSFUL" in raw:
            status = E.DISCHARGED
        elif "VERIFICATION:- FAILED" in raw and failed:
            status = E.FAILED
        else:
            status = E.UNDECIDED  # timeout, CBMC crash, no output
        failed = list(dict.fromkeys(failed))
        res[h] = dict(status=status, failed=failed, cover=cover, time_s=float(tm.group(1)) if tm else 0.0,
                      raw=raw[-6000:] if raw else log[-3000:],
                      playback=pick_playback(raw) if playback else None)
    return res, " ".join(cmd), wall


def pick_playback(text):
    """Kani prints one playback test per satisfied cover AND per failed check.  Return the
    values of the first test generated for a failed *spec clause* (never a cover's)."""
    blocks = re.split(r'(?=Concrete playback unit test for)', text)
    # first a failed spec clause; if none, a failed panic/overflow/bounds check inside the function under test
    for spec_only in (True, False):
        for blk in blocks:
            m = re.search(r'/// Check for `([^`]*)`: "([^\n]*)"', blk)
            if not m or m.group(1) == "cover":
                continue
            if spec_only and not SPEC_PREFIX.match(m.group(2).strip('"')):
                continue
            if not spec_only and TOOL_LIMIT.search(m.group(2)):
                continue
            vals = E.parse_playback(blk)
            if vals:
                return vals
    return None


SPEC_PREFIX = re.compile(r'^(C\d\d\.|Lexer::new)')
TOOL_LIMIT = re.compile(r'harness bound|unwinding assertion|is not currently supported|recursion unwinding')


def split_result(r):
    """One harness run -> (spec status, spec failures, totality status, totality failures).
    spec clauses are the harness assertions whose message starts with the property id;
    everything else that can fail is Kani's own panic/overflow/bounds/unwrap checks inside the
    function under test (= C04 totality).  Tool-limit failures make both UNDECIDED."""
    if r['status'] == E.UNDECIDED:
        why = [r['raw'][:1500]] if r.get('compile_error') else []
        return E.UNDECIDED, why, E.UNDECIDED, why
    lim = [f for f in r['failed'] if TOOL_LIMIT.search(f)]
    spec = [f for f in r['failed'] if SPEC_PREFIX.match(f) and f not in lim]
    tot = [f for f in r['failed'] if f not in spec and f not in lim]
    vac = [d for d, st in r['cover'] if st != "SATISFIED"]
    if lim:
        return E.UNDECIDED, lim, E.UNDECIDED, lim
    s_st = E.FAILED if spec else E.DISCHARGED
    t_st = E.FAILED if tot else E.DISCHARGED
    if vac and s_st == E.DISCHARGED:
        s_st, spec = E.UNDECIDED, ["vacuity guard: cover not satisfied: %s" % "; ".join(vac)]
    if not r['cover']:
        s_st, spec = (E.UNDECIDED, ["vacuity guard: no cover result reported"]) if s_st == E.DISCHARGED else (s_st, spec)
    return s_st, spec, t_st, tot


# harness -> (spec obligation id, props, function, text, bound template, feature, tiers,
#             totality obligation id or None)
def table(b):
    alpha = lambda t: "{" + " ".join(repr(c)[1:-1] for c in t) + "}"
    return [
        dict(h="delim_scan", id="C30.lex.delim_scan.post", props=["C30"], fn="scan_for_unescaped_delim", feature=None,
             total="C04.lex.delim_scan.total",
             bound="lexer text of <= %d chars over %s, any cursor, any start <= %d, delimiter \" or ', stop_at_newline=false; unwind %d" % (b['N_SCAN'], alpha(T_ALL), b['N_SCAN'] + 1, b['U_SCAN']),
             text="ensures result == the first position p >= start with chars[index+p] == delim and an even number of consecutive backslashes in [start, p) right before p; None if there is none (spec_scan, from C30)"),
        dict(h="handle_num_post", id="C30.lex.handle_num.post", props=["C30", "C33"], fn="Lexer::handle_num", feature=None,
             total="C04.lex.handle_num.total",
             bound="lexer text of <= %d chars over %s, cursor on any digit; unwind %d" % (b['N_NUM'], alpha(T_NUM), b['U_NUM']),
             text="requires current_char().is_ascii_digit() (the only call site); ensures exactly one token; literal = maximal [0-9_]+ ('.' [0-9_]*)?; token text = its digits in order with `_` removed and the `.` kept; IntLit iff no `.`; span as long as the literal; cursor just after it. (str::parse::<i64/f64> on that text: trusted std, parse.rs)"),
        dict(h="escapes", id="C30.lex.escapes.post", props=["C30"], fn="process_escapes_into", feature="r7",
             total="C04.lex.escapes.total",
             bound="every slice of <= %d chars over %s; unwind %d; text under rewrite R7" % (b['N_ESC'], alpha(T_ESC), b['U_ESC']),
             text="ensures (a diagnostic is pushed) <=> cs contains a backslash followed by something other than n t r \" ' \\ or xNN with NN two hex digits; if none: result == unescape(cs) where \\n \\t \\r \\\" \\' \\\\ denote LF TAB CR \" ' \\, \\xNN denotes U+00NN, a final lone backslash and every other char denote themselves"),
        dict(h="escapes_hex", id="C30.lex.escapes_hex.post", props=["C30"], fn="process_escapes_into", feature="r7",
             total=None,
             bound="slices `\\ x d2 d3 t` cut to any length <= 5, d2 d3 over %s, t over %s; unwind 7; text under rewrite R7" % (alpha(T_HEX), alpha(T_ESC)),
             text="same contract as C30.lex.escapes.post, on the \\xNN shape (reaches 5 chars in the quick tier)"),
        dict(h="line_comment_skip", id="C29.lex.line_comment.skip", props=["C29"], fn="tokenize_file arm '/' (line comment)", feature=None,
             total="C04.lex.comment_arm.total",
             bound="`//` followed by <= %d chars over %s; unwind %d" % (b['N_CMT'], alpha(T_CMT), b['U_CMT']),
             text="ensures cursor == position of the next newline, or end of input; no token pushed (lifted arm: no access to ctx, so no diagnostic either)"),
        dict(h="block_comment_skip", id="C29.lex.block_comment.skip", props=["C29"], fn="tokenize_file arm '/' (block comment)", feature=None,
             total=None,
             bound="`/*` followed by <= %d chars over %s (body, terminator if any, following text); unwind %d" % (b['N_CMT'], alpha(T_CMT), b['U_CMT']),
             text="ensures cursor == just after the FIRST `*/` at or after index+2; if there is none, cursor >= end of input; no token pushed -- i.e. the comment is skipped exactly like blanks are by the `' '` arm"),
        dict(h="span_byte_offsets", id="C33.lex.span.byte_offsets", props=["C33"], fn="Lexer::emit / Lexer::emit_with_skipped (via handle_num)", feature=None,
             total="C04.lex.emit.total",
             bound="source of <= %d chars over %s, cursor on any `*`, newline or digit; unwind %d" % (b['N_SPAN'], alpha(T_SPAN), b['U_SPAN']),
             text="requires lexer.chars == source.chars() and index == k (k chars consumed); ensures the pushed token's span == [byte offset of char k, byte offset of the char after the token) in the UTF-8 source, within the source (consumers: Location::range -> codespan labels, FileData::line_number_for_index, both byte-indexed)"),
        dict(h="span_ascii", id="C33.lex.span.ascii", props=["C33"], fn="Lexer::emit / Lexer::emit_with_skipped / Lexer::handle_num", feature=None,
             total=None,
             bound="ASCII source of <= %d chars over %s, cursor on any `*`, newline or digit; unwind %d" % (b['N_SPAN'], alpha(T_ASCII), b['U_SPAN']),
             text="requires an ASCII-only source (char index == byte offset, so the clause is independent of the char-vs-byte finding); ensures the pushed token's span == [k, k2) where k2 is the end of the token's source text (`*` / `*=` / newline / the maximal literal [0-9_]+('.'[0-9_]*)? with its `_` separators) and the cursor == k2"),
        dict(h="keyword_table", id="C04.lex.keyword_table", props=["C04", "C33"], fn="TokenKind::keyword_from_str / TokenKind::nchars", feature=None,
             total=None, bound=None,
             text="ensures for every keyword spelling w: keyword_from_str(w) == Some(k) with k.is_keyword() and k.nchars() == w.len() (real strum-derived FromStr / IntoStaticStr)"),
        dict(h="tokenize_total", id="C04.lex.tokenize.kani", props=["C04"], fn="tokenize_file", feature=None, tiers=("opt-in",),
             total=None,
             bound="source of <= %d chars over %s; unwind %d; callees handle_num, scan_for_unescaped_delim, process_escapes_into, handle_multiline_string, keyword_from_str, is_poly_ident replaced by their contracts" % (b['N_TOK'], alpha(T_ALL), b['U_TOK']),
             text="ensures returns (no panic); tokens.len() in 1..=len+1; last token is Eof and no other is; every span has lo <= hi; spans non-decreasing and non-overlapping"),
    ]


def run(tier="quick"):
    tier = "thorough" if tier == "thorough" else "quick"
    sc = E.Scratch("u11")
    try:
        build_err = None
        try:
            meta = build(sc.path, tier)
        except (S.SliceError, E.Undecided) as ex:
            # the Kani crate cannot even be assembled: its obligations are UNDECIDED one by one,
            # the native exhaustive run (which only needs tokenize_file) still reports
            build_err = "Kani scratch crate cannot be assembled: %s" % str(ex)[:2000]
            meta = dict(bounds=BOUNDS[tier], real_sha="", arm_sha="", r7_count=0, unsafe_count=0, crate_uses=[], pei_sha="")
        b = meta['bounds']
        rows = [r for r in table(b) if tier in r.get('tiers', ("quick", "thorough"))
                or ("opt-in" in r.get('tiers', ()) and os.environ.get("U11_TRY_TOKENIZE"))]
        tmo = 420 if tier == "quick" else 3000
        import concurrent.futures as cf
        plain = [r['h'] for r in rows if not r['feature']]
        r7 = [r['h'] for r in rows if r['feature'] == "r7"]
        def dead(hs):
            return ({h: dict(status=E.UNDECIDED, failed=[], cover=[], time_s=0.0, raw=build_err, playback=None, compile_error=True)
                     for h in hs}, "(not run)", 0.0)
        with cf.ThreadPoolExecutor(max_workers=3) as ex:
            f3 = ex.submit(native_obligations, tier)
            if build_err:
                (res1, cmd1, wall1), (res2, cmd2, wall2) = dead(plain), dead(r7)
            else:
                f1 = ex.submit(run_batch, sc.path, plain, None, tmo, 6)
                f2 = ex.submit(run_batch, sc.path, r7, "r7", tmo, 2)
                res1, cmd1, wall1 = f1.result()
                res2, cmd2, wall2 = f2.result()
            nat_obs, nat_cmd, nat_notes = f3.result()
        res = dict(res1)
        res.update(res2)
        obs = []
        tot_acc = {}
        for r in rows:
            k = res[r['h']]
            s_st, s_f, t_st, t_f = split_result(k)
            if t_st == E.FAILED and s_st != E.UNDECIDED:
                # a panic / overflow / out-of-bounds inside the function under test: on that input the function does
                # not return at all, so its postcondition is not met either (the C04 .total obligation reports the same run)
                s_st = E.FAILED
                s_f = list(s_f) + ["function under test does not return normally: " + f for f in t_f]
            detail = "\n".join(s_f[:6]) or (k['raw'][-800:] if s_st == E.UNDECIDED else "")
            sha = meta['real_sha'] + ("+arm:" + meta['arm_sha'] if "comment" in r['h'] else "")
            obs.append(E.Obligation(r['id'], r['props'], UNIT, r['fn'], "kani/cbmc", s_st, detail, k['time_s'], LEX, sha,
                                    r['bound'], "harness %s%s: %s" % (MOD, r['h'], r['text'])))
            if r['total']:
                a = tot_acc.setdefault(r['total'], dict(st=[], f=[], t=0.0, fn=r['fn'], bound=[], h=[]))
                a['st'].append(t_st)
                a['f'] += t_f
                a['t'] += k['time_s']
                a['bound'].append(r['bound'])
                a['h'].append(r['h'])
        # the comment arm's totality also covers the block-comment harness
        if "C04.lex.comment_arm.total" in tot_acc and "block_comment_skip" in res:
            s_st, s_f, t_st, t_f = split_result(res["block_comment_skip"])
            a = tot_acc["C04.lex.comment_arm.total"]
            a['st'].append(t_st)
            a['f'] += t_f
            a['h'].append("block_comment_skip")
        for oid, a in tot_acc.items():
            st = E.FAILED if E.FAILED in a['st'] else (E.UNDECIDED if E.UNDECIDED in a['st'] else E.DISCHARGED)
            obs.append(E.Obligation(oid, ["C04"], UNIT, a['fn'], "kani/cbmc", st, "\n".join(a['f'][:6]), 0.0, LEX, meta['real_sha'],
                                    a['bound'][0],
                                    "harness(es) %s: no panic, no arithmetic overflow, no out-of-bounds index, no failed unwrap inside the function for any input within the bound (Kani's checks on the real text; same CBMC runs as the .post obligations, time counted there)" % ", ".join(a['h'])))
        obs += nat_obs
        info = dict(
            assumptions=[
                "exhaustive native execution (C04.lex.tokenize.total, C30.lex.multiline.total): bounded enumeration of source texts, NOT a proof; it stands in for the whole-function Kani harness that CBMC cannot finish; same verbatim lexer.rs and R6 stubs, rustc release build with overflow-checks and debug-assertions on",
                "R6 stub: crate::ast::FileId = u32; crate::statics::{Error{UnrecognizedToken(FileId,usize),UnrecognizedEscapeSequence(FileId,Span)}, StaticsContext{file_db: FileDatabase{files: Vec<FileData{source:String}>, get()}, errors: Vec<Error>}} (units/u11_lexer/stubs_*.rs); everything else of StaticsContext dropped",
                "R7 rewrite (escapes obligations only, %d application): `%s` -> `%s`; assumes format!(\"{d2}{d3}\") yields d2 followed by d3 (std::fmt is out of CBMC's reach: indirect calls through fmt::Argument)" % (meta['r7_count'], R7_OLD, R7_NEW),
                "std stub: String::push -> stub_string_push (in-place UTF-8 append, no amortised growth, one buffer of SCAP=%d bytes; overflow => UNDECIDED)" % b['SCAP'],
                "std stub (escapes harnesses): String::push -> stub_push_log (appended chars logged; sound while the result string is append-only in process_escapes_into, checked textually each run)",
                "std stub: Vec::push -> stub_vec_push (in-place write, capacity fixed at VCAP=8/with_capacity; overflow => UNDECIDED)",
                "std stub: core::str::count::count_chars -> number of non-continuation bytes (its specification)",
                "kani::assume: only input-shaping (len <= N, table index < K, cursor < len, cursor on a digit / token start) -- every one is listed in the obligation's bound",
                "Kani pointer-validity checks disabled (--no-memory-safety-checks): lexer.rs contains no `unsafe` (checked on every run: %d occurrences); panics, overflow, bounds and unwrap checks stay on" % meta['unsafe_count'],
                "C33 harness: lexer.chars == source.chars() is assumed as the meaning of Lexer::new (`source.chars().collect()`, trusted std) instead of executing String -> Vec<char> in CBMC",
                "lifted slice: the `'/'` arm of tokenize_file runs as fn arm_slash(lexer: &mut Lexer); the match dispatch that selects it is not part of the obligation (thorough tier: C04.lex.tokenize.total runs it in place)",
            ],
            trusted_base=["kani 0.68.0 / CBMC 6.11.0", "tools/slicer.py (item, match_arm)", "strum 0.27.2 derive output (compiled, not stubbed)",
                          "rustc nightly-2026-08-21 std (String/Vec/char/str::parse)", "units/u11_lexer/harness.rs spec functions (spec_scan, spec_unescape, byte_off)"],
            checker_cmds=[cmd1.replace(sc.path, "$SCRATCH"), cmd2.replace(sc.path, "$SCRATCH"), nat_cmd],
            notes=dict(bounds=b, lexer_sha256=meta['real_sha'], slash_arm_sha=meta['arm_sha'], r7_applications=meta['r7_count'],
                       crate_imports=meta['crate_uses'], wall_plain_s=round(wall1, 1), wall_r7_s=round(wall2, 1),
                       covers={h: k['cover'] for h, k in res.items()}, native_exhaustive=nat_notes,
                       undecided_by_design=[
                           "whole tokenize_file under Kani (C04.lex.tokenize.kani): CBMC does not finish within 600 s at 2 symbolic chars, neither on the plain function nor with all seven callees (Lexer::new, handle_num, scan_for_unescaped_delim, process_escapes_into, handle_multiline_string, keyword_from_str, is_poly_ident) replaced by their contracts; the harness stays in harness.rs and runs only with U11_TRY_TOKENIZE=1. The main loop and its dispatch are therefore covered only by bounded exhaustive native execution (C04.lex.tokenize.total); the `'/'` arm is also covered as a lifted slice under Kani",
                           "C30.lex.multiline.indent / handle_multiline_string: needs String -> Vec<char> (`string_val.chars().collect()`), which alone exceeds 400 s at 4 chars in CBMC; also the book documents no indentation rule (only e2e tests do). Not covered",
                           "Lexer::new (String -> Vec<char>): same limit; the C33 obligation assumes its meaning"]),
        )
        return obs, info
    finally:
        sc.cleanup()


# ------------------------------------------------------------------ replay on the real CLI

ANSI = re.compile(r'\x1b\[[0-9;]*m')


def _playback(harness, feature, tier):
    """Re-run one harness with concrete playback; returns (result dict, byte-vector list)."""
    sc = E.Scratch("u11r")
    try:
        build(sc.path, tier)
        res, cmd, wall = run_batch(sc.path, [harness], feature, 900, 1, playback=True)
        r = res[harness]
        return r, r.get('playback')
    finally:
        sc.cleanup()


def _u8s(vals):
    return [v[0] if v else 0 for v in vals]


def py_unescape(cs):
    """C30's unescape, mirrored from harness.rs spec_unescape: (text, bad)."""
    out, bad, p = [], False, 0
    simple = {'n': '\n', 't': '\t', 'r': '\r', '"': '"', "'": "'", '\\': '\\'}
    hexd = "0123456789abcdefABCDEF"
    while p < len(cs):
        c = cs[p]
        if c == '\\' and p + 1 < len(cs):
            e = cs[p + 1]
            if e in simple:
                out.append(simple[e])
                p += 2
            elif e == 'x' and p + 3 < len(cs) and cs[p + 2] in hexd and cs[p + 3] in hexd:
                out.append(chr(int(cs[p + 2] + cs[p + 3], 16)))
                p += 4
            else:
                bad = True
                p += 2
        else:
            out.append(c)
            p += 1
    return "".join(out), bad


def _first_unescaped(cs, d):
    p = 0
    while p < len(cs):
        if cs[p] == '\\':
            p += 2
            continue
        if cs[p] == d:
            return p
        p += 1
    return None


def _diag_positions(text, title):
    """(line, col) of every diagnostic whose title is `title` in codespan output."""
    out = []
    lines = ANSI.sub('', text).split('\n')
    for i, l in enumerate(lines):
        if l.startswith('error') and title in l:
            for l2 in lines[i + 1:i + 3]:
                m = re.search(r':(\d+):(\d+)\s*$', l2)
                if m:
                    out.append((int(m.group(1)), int(m.group(2))))
                    break
    return out


def _line_col(text, k):
    """1-based (line, column in chars) of char position k of text."""
    before = text[:k]
    line = before.count('\n') + 1
    col = len(before) - (before.rfind('\n') + 1) + 1
    return line, col


NUM_RX = re.compile(r'[0-9][0-9_]*(?:\.[0-9_]*)?')


def _max_literal(cs, k):
    m = NUM_RX.match(cs, k)
    return m.group(0) if m else None


def _replay_literal(lit):
    """A numeric literal's span on the real CLI: `let limit: string = <lit>` makes the type
    checker underline the literal (label "`int` literal" / "`float` literal"); the underlined
    range must be exactly the literal's extent."""
    prefix = "let limit: string = "
    prog = prefix + lit + "\n"
    out, err, rc = abra_cli.run_program(prog, args=["--check"])
    text = ANSI.sub('', out + err)
    lines = text.split('\n')
    info = dict(program=prog, literal=lit, expected_underline=dict(column=len(prefix) + 1, length=len(lit)),
                real_output=text[:900], rc=rc)
    for i, l in enumerate(lines):
        m = re.match(r'^(\s*\d+ │ )(.*)$', l)
        if not m or not m.group(2).startswith(prefix):
            continue
        w = len(m.group(1))
        for l2 in lines[i + 1:i + 4]:
            lm = re.search(r'([-^]+) `(?:int|float)` literal', l2)
            if lm:
                got = dict(column=lm.start(1) - w + 1, length=len(lm.group(1)))
                info['reported_underline'] = got
                return (got != info['expected_underline']), info
    info['note'] = "no literal label found in the CLI output"
    return None, info


def replay(ob):
    if ob.id in (TOK_ID, ML_ID):
        return replay_native(ob)
    if ob.id == SPAN_NAT_ID:
        cex = getattr(ob, 'cex', None)
        if not cex:
            obs, _, _ = native_obligations("thorough" if os.environ.get("VERIF_TIER") == "thorough" else "quick")
            me = [o for o in obs if o.id == ob.id]
            cex = me[0].cex if me else None
            ob.cex = cex
        if not cex:
            return None, dict(note="exhaustive run reports no failing text")
        cls = cex.get('all_classes', [cex])
        for c in sorted(cls, key=lambda c: 0 if 'lit' in c['what'].lower() else 1):
            m = NUM_RX.search(c['text'])
            if m:
                conf, info = _replay_literal(m.group(0))
                info.update(failing_text=c['text'], what=c['what'])
                return conf, info
        return None, dict(note="failing text has no numeric literal; no CLI probe for this token kind", classes=cex.get('all_classes'))
    if ob.id in ("C30.lex.handle_num.post", "C33.lex.span.ascii"):
        tier = "thorough" if os.environ.get("VERIF_TIER") == "thorough" else "quick"
        b = BOUNDS[tier]
        num = ob.id.startswith("C30")
        h, tab, N = ("handle_num_post", T_NUM, b['N_NUM']) if num else ("span_ascii", T_ASCII, b['N_SPAN'])
        r, pb = _playback(h, None, tier)
        info = dict(harness=MOD + h, status=r['status'], failed=r['failed'][:4])
        if r['status'] != E.FAILED:
            return None, info
        if not pb or len(pb) < 2 + N:
            # Kani 0.68 sometimes prints playback tests for the covers only.  Fall back to the
            # literals the harness ranges over: every literal of <= N chars over {7 _ .}, each
            # run through the real CLI, first misbehaving one wins.
            import itertools
            info['note'] = "no concrete playback for the failed clause; enumerated the harness's literals (<= %d chars over 7 _ .) on the CLI" % N
            tried = 0
            for L in range(1, N + 1):
                for tail in itertools.product("7_.", repeat=L - 1):
                    lit = "7" + "".join(tail)
                    if not NUM_RX.fullmatch(lit):
                        continue
                    tried += 1
                    conf, inf2 = _replay_literal(lit)
                    if conf:
                        info.update(inf2)
                        info['literals_tried'] = tried
                        ob.cex = dict(literal=lit)
                        return True, info
            info['literals_tried'] = tried
            return None, info
        v = _u8s(pb)
        cs = "".join(tab[i] for i in v[1:1 + N])[:v[0]]
        k = v[1 + N]
        lit = _max_literal(cs, k)
        info['counterexample'] = dict(text=cs, cursor_char=k, literal=lit)
        ob.cex = info['counterexample']
        if not lit:
            info['note'] = "counterexample token is not a numeric literal; no CLI probe for it"
            return None, info
        conf, inf2 = _replay_literal(lit)
        info.update(inf2)
        return conf, info
    tier = os.environ.get("VERIF_TIER", "quick")
    tier = "thorough" if tier == "thorough" else "quick"
    b = BOUNDS[tier]
    if ob.id == "C29.lex.block_comment.skip":
        r, pb = _playback("block_comment_skip", None, tier)
        info = dict(harness=MOD + "block_comment_skip", status=r['status'], failed=r['failed'][:4])
        if r['status'] != E.FAILED or not pb or len(pb) < 1 + b['N_CMT']:
            return None, info
        v = _u8s(pb)
        n = v[0]
        cs = "".join(T_CMT[i] for i in v[1:1 + b['N_CMT']])[:n]
        close = cs.find("*/")
        info['counterexample'] = dict(text="/*" + cs, first_close=close)
        ob.cex = info['counterexample']
        if close >= 0:
            comment = "/*" + cs[:close + 2]
            with_c = "println(1 %s + 2)\n" % comment
            without = "println(1   + 2)\n"
        else:
            comment = "/*" + cs
            with_c = "println(3)\n" + comment
            without = "println(3)\n "
        o1 = abra_cli.run_program(with_c)
        o0 = abra_cli.run_program(without)
        info.update(program_with_comment=with_c, program_with_blank=without,
                    real_with_comment=dict(stdout=o1[0][:400], stderr=ANSI.sub('', o1[1])[:600], rc=o1[2]),
                    real_with_blank=dict(stdout=o0[0][:400], stderr=ANSI.sub('', o0[1])[:600], rc=o0[2]),
                    expected="identical behaviour (C29: a block comment whose text does not contain `*/` is a blank)")
        return ((o1[0], o1[2]) != (o0[0], o0[2]) or (o1[2] != 0) != (o0[2] != 0)), info
    if ob.id == "C33.lex.span.byte_offsets":
        r, pb = _playback("span_byte_offsets", None, tier)
        info = dict(harness=MOD + "span_byte_offsets", status=r['status'], failed=r['failed'][:4])
        N = b['N_SPAN']
        if r['status'] != E.FAILED or not pb or len(pb) < 2 + N:
            return None, info
        v = _u8s(pb)
        n = v[0]
        cs = "".join(T_SPAN[i] for i in v[1:1 + N])[:n]
        k = v[1 + N]
        info['counterexample'] = dict(source=cs, cursor_char=k, token=cs[k:k + 1],
                                      byte_offset=len(cs[:k].encode()), char_index=k)
        ob.cex = info['counterexample']
        # 1. the counterexample text itself: positions of the lexer's own diagnostics
        o = abra_cli.run_program(cs)
        got = _diag_positions(o[0] + o[1], "Unrecognized token")
        want = [_line_col(cs, i) for i, c in enumerate(cs) if c in ('é', '😀')]
        # 2. the same text followed by a probe token `$` whose diagnostic position is known
        probe = cs + "$"
        o2 = abra_cli.run_program(probe)
        got2 = _diag_positions(o2[0] + o2[1], "Unrecognized token")
        want2 = want + [_line_col(probe, len(cs))]
        info.update(program=cs, real_output=ANSI.sub('', o[0] + o[1])[:900], reported_positions=got, expected_positions=want,
                    probe_program=probe, probe_output=ANSI.sub('', o2[0] + o2[1])[:900], probe_reported=got2, probe_expected=want2)
        if not got2 and not got:
            return None, info
        return (got != want or got2 != want2), info
    if ob.id in ("C30.lex.escapes.post", "C30.lex.escapes_hex.post"):
        hx = ob.id.endswith("escapes_hex.post")
        r, pb = _playback("escapes_hex" if hx else "escapes", "r7", tier)
        info = dict(harness=MOD + ("escapes_hex" if hx else "escapes"), status=r['status'], failed=r['failed'][:4])
        if r['status'] != E.FAILED or not pb:
            return None, info
        v = _u8s(pb)
        if hx:
            if len(v) < 4:
                return None, info
            cs = ("\\x" + T_HEX[v[1]] + T_HEX[v[2]] + T_ESC[v[3]])[:v[0]]
        else:
            N = b['N_ESC']
            if len(v) < 1 + N:
                return None, info
            cs = "".join(T_ESC[i] for i in v[1:1 + N])[:v[0]]
        want, bad = py_unescape(cs)
        info['counterexample'] = dict(literal_content=cs, spec_text=want, spec_is_error=bad)
        ob.cex = info['counterexample']
        # embed as a string literal whose content is exactly cs
        q = None
        for d in ('"', "'"):
            if _first_unescaped(cs, d) is None and (len(cs) - len(cs.rstrip('\\'))) % 2 == 0:
                q = d
                break
        if q is None:
            info['note'] = "counterexample cannot be written as a single-line literal"
            return None, info
        prog = "print(%s%s%s)\n" % (q, cs, q)
        o = abra_cli.run_program(prog)
        diag = "Unrecognized escape sequence" in (o[0] + o[1])
        info.update(program=prog, real_stdout=o[0][:200], real_stdout_bytes=list(o[0].encode()[:32]),
                    real_stderr=ANSI.sub('', o[1])[:500], rc=o[2],
                    expected=("diagnostic `Unrecognized escape sequence`" if bad else "prints %r" % want))
        if bad:
            return (not diag), info
        return (diag or o[0] != want), info
    return None, dict(note="no replay for %s" % ob.id)


# ------------------------------------------------------------------ exhaustive native execution

NATIVE_CARGO = """[package]
name = "u11native"
version = "0.1.0"
edition = "2024"
[dependencies]
strum = { version = "0.27.2", features = ["derive"] }
strum_macros = "0.27.2"
[profile.release]
opt-level = 2
overflow-checks = true
debug-assertions = true
panic = "unwind"
[lints.rust]
unexpected_cfgs = { level = "allow" }
[workspace]
"""

NATIVE_MAIN = """#![allow(dead_code, unused_imports, unused_variables, unused_mut, unused_assignments, clippy::all)]
mod ast;
mod statics;
mod parse;
fn main() {
    parse::lexer::native::main()
}
"""

NATIVE_WRAP = """include!("lexer_real.rs");
pub(crate) mod native {
    use super::*;
    include!("u11_native.rs");
}
"""

NATIVE_N = {"quick": 5, "thorough": 7}
TOK_ID = "C04.lex.tokenize.total"
ML_ID = "C30.lex.multiline.total"
SPAN_NAT_ID = "C33.lex.span.ascii_exhaustive"


def build_native(dirpath):
    """Scratch binary crate: lexer.rs byte-for-byte + the R6 stubs + native.rs (driver)."""
    with open(os.path.join(S.REPO, LEX), 'rb') as f:
        raw = f.read()
    os.makedirs(os.path.join(dirpath, "src", "parse"), exist_ok=True)
    with open(os.path.join(dirpath, "src", "parse", "lexer_real.rs"), "wb") as f:
        f.write(raw)
    w = lambda rel, s: open(os.path.join(dirpath, rel), "w", encoding="utf-8").write(s)
    w("Cargo.toml", NATIVE_CARGO)
    lock = os.path.join(S.REPO, "Cargo.lock")
    if os.path.exists(lock):
        shutil.copy(lock, os.path.join(dirpath, "Cargo.lock"))
    w("src/main.rs", NATIVE_MAIN)
    w("src/parse.rs", PARSE)
    w("src/parse/lexer.rs", NATIVE_WRAP)
    shutil.copy(os.path.join(HERE, "native.rs"), os.path.join(dirpath, "src", "parse", "u11_native.rs"))
    shutil.copy(os.path.join(HERE, "stubs_ast.rs"), os.path.join(dirpath, "src", "ast.rs"))
    shutil.copy(os.path.join(HERE, "stubs_statics.rs"), os.path.join(dirpath, "src", "statics.rs"))
    return hashlib.sha256(raw).hexdigest()[:16]


def run_native(tier, n=None, jobs=6):
    """Build + run the exhaustive driver.  Returns (result dict | None, sha, cmd, detail, secs)."""
    import json
    n = n or NATIVE_N[tier]
    sc = E.Scratch("u11n")
    try:
        sha = build_native(sc.path)
        env = E.kani_env()
        # (U11_TARGET_CACHE, if set, also keeps the third-party build of this crate between runs)
        tdir = (os.environ["U11_TARGET_CACHE"] + "-native") if os.environ.get("U11_TARGET_CACHE") else os.path.join(sc.path, "target")
        env["CARGO_TARGET_DIR"] = tdir
        env.pop("RUSTFLAGS", None)
        t0 = time.time()
        p = subprocess.run(["timeout", "900", "cargo", "build", "--release", "--offline", "--quiet"], cwd=sc.path,
                           capture_output=True, text=True, env=env)
        tb = time.time() - t0
        cmd = "cargo build --release --offline (overflow-checks, debug-assertions on) && target/release/u11native %d %d" % (n, jobs)
        if p.returncode != 0:
            return None, sha, cmd, "native crate does not build:\n" + p.stderr[-2500:], tb
        t0 = time.time()
        q = subprocess.run(["timeout", "3000", os.path.join(tdir, "release", "u11native"), str(n), str(jobs)],
                           capture_output=True, text=True)
        tr = time.time() - t0
        if q.returncode != 0:
            return None, sha, cmd, "driver exited with %d\n%s" % (q.returncode, (q.stderr or q.stdout)[-2000:]), tb + tr
        try:
            res = json.loads(q.stdout)
        except Exception:
            return None, sha, cmd, "driver output is not JSON: " + q.stdout[-500:], tb + tr
        res['build_s'], res['run_s'] = round(tb, 1), round(tr, 1)
        return res, sha, cmd, "", tb + tr
    finally:
        sc.cleanup()


def native_obligations(tier):
    res, sha, cmd, err, secs = run_native(tier)
    n = NATIVE_N[tier]
    if res is None:
        obs = [E.Obligation(TOK_ID, ["C04", "C30", "C29"], UNIT, "tokenize_file", "rustc/native exhaustive", E.UNDECIDED, err, secs, LEX, sha,
                            "every text of <= %d atoms" % n, ""),
               E.Obligation(ML_ID, ["C30", "C04"], UNIT, "handle_multiline_string (via tokenize_file)", "rustc/native exhaustive", E.UNDECIDED, err, 0.0, LEX, sha,
                            "every text of <= %d atoms starting with \"\"\"" % n, ""),
               E.Obligation(SPAN_NAT_ID, ["C33"], UNIT, "tokenize_file (token spans)", "rustc/native exhaustive", E.UNDECIDED, err, 0.0, LEX, sha,
                            "every ASCII text of <= %d atoms" % n, "")]
        return obs, cmd, dict(error=err[:500])
    atoms = " ".join(repr(a)[1:-1] if a != "'" else "'" for a in res['atoms'])
    bound = ("EXHAUSTIVE NATIVE EXECUTION, not a proof: every source text of <= %d atoms over the %d-atom alphabet {%s} "
             "(%d texts executed this run)" % (res['n'], len(res['atoms']), atoms, res['texts']))
    text = ("native driver units/u11_lexer/native.rs on the verbatim lexer.rs (overflow checks + debug assertions on, catch_unwind): for every text, "
            "tokenize_file returns without panicking; the last token is Eof and no earlier one is; every span has lo <= hi; spans never decrease or overlap; "
            "ctx.errors holds lexer diagnostics only (UnrecognizedToken / UnrecognizedEscapeSequence; exhaustive match, and the R6 stub has no other variant). "
            "This run: %d texts, %d panics, %d clause violations, %d tokens and %d diagnostics produced" % (
                res['texts'], res['panics'], res['violations'], res['tokens'], res['diagnostics']))
    all_classes = sorted(res['classes'], key=lambda c: (c['natoms'], c['text']))
    span_classes = [c for c in all_classes if c['what'].startswith("span")]
    classes = [c for c in all_classes if not c['what'].startswith("span")]

    def mk(oid, props, fn, cls, ntexts, npan, nviol, bnd, txt):
        if cls:
            st = E.FAILED
            detail = "\n".join("%s | shortest failing text (%d atoms): %r | %d texts" % (c['what'], c['natoms'], c['text'], c['count']) for c in cls[:12])
            cex = dict(text=cls[0]['text'], what=cls[0]['what'], natoms=cls[0]['natoms'],
                       all_classes=[dict(what=c['what'], text=c['text'], count=c['count']) for c in cls[:12]])
        else:
            st, detail, cex = E.DISCHARGED, "", None
        if ntexts == 0:
            st, detail = E.UNDECIDED, "vacuity guard: no text executed"
        return E.Obligation(oid, props, UNIT, fn, "rustc/native exhaustive", st, detail, secs if oid == TOK_ID else 0.0, LEX, sha, bnd, txt, cex=cex)

    obs = [mk(TOK_ID, ["C04", "C30", "C29"], "tokenize_file", classes, res['texts'], res['panics'], res['violations'], bound, text)]
    mlc = [dict(c, count=c['ml_count']) for c in classes if c['ml_count'] > 0]
    # the shortest text of a class may not start with `"""`; the multiline obligation reports the class, its own text comes from the class when it does
    obs.append(mk(ML_ID, ["C30", "C04"], "handle_multiline_string (via tokenize_file)", mlc, res['ml_texts'], res['ml_panics'], res['ml_violations'],
                  bound.replace("every source text of", "every source text starting with the atom \"\"\" of") .replace("(%d texts" % res['texts'], "(%d texts" % res['ml_texts']),
                  "same run and clauses, restricted to the texts whose first atom is `\"\"\"` (the only way into handle_multiline_string at offset 0): "
                  "%d texts, %d panics, %d clause violations" % (res['ml_texts'], res['ml_panics'], res['ml_violations'])))
    obs.append(mk(SPAN_NAT_ID, ["C33"], "tokenize_file (token spans)", span_classes, res.get('ascii_texts', 0), 0, res.get('span_violations', 0),
                  bound.replace("every source text of", "every ASCII-only source text of").replace("(%d texts" % res['texts'], "(%d texts" % res.get('ascii_texts', 0)),
                  "same run, ASCII-only texts (char index == byte offset, hence independent of the char-vs-byte finding): for every token the source text under its span "
                  "is the token's text (literal digits with `_` removed, identifier, operator/keyword spelling, a quote for strings, newline), the span lies within the source, "
                  "and a numeric literal's span is not followed by a char that belongs to the literal (every consumed char is covered). "
                  "%d ASCII texts, %d violations" % (res.get('ascii_texts', 0), res.get('span_violations', 0))))
    notes = dict(ascii_texts=res.get('ascii_texts'), span_violations=res.get('span_violations'), end_of_input="texts are exact atom concatenations: no implicit trailing newline, every atom occurs as the last one (e.g. `\"a\\` = a text ending in a lone backslash inside an unterminated string is 3 atoms)", n=res['n'], atoms=res['atoms'], texts=res['texts'], panics=res['panics'], violations=res['violations'],
                 multiline_texts=res['ml_texts'], multiline_panics=res['ml_panics'], build_s=res['build_s'], run_s=res['run_s'],
                 failing_classes=[dict(what=c['what'], shortest_text=c['text'], texts=c['count']) for c in all_classes])
    return obs, cmd, notes


def replay_native(ob):
    """Run the shortest failing text through the real CLI (`abra --check file`)."""
    cex = getattr(ob, 'cex', None)
    if not cex or 'text' not in cex:
        tier = "thorough" if os.environ.get("VERIF_TIER") == "thorough" else "quick"
        obs, _, _ = native_obligations(tier)
        me = [o for o in obs if o.id == ob.id]
        cex = me[0].cex if me else None
        if not cex:
            return None, dict(note="exhaustive run reports no failing text")
        ob.cex = cex
    confirmed_any, runs = False, []
    for c in cex.get('all_classes', [dict(what=cex['what'], text=cex['text'])])[:6]:
        if ob.id == ML_ID and not c['text'].startswith('"""'):
            continue
        out, err, rc = abra_cli.run_program(c['text'], args=["--check"])
        host_panic = (rc == 101) or ("panicked at" in err) or ("panicked at" in out)
        is_panic_class = c['what'].startswith("panic")
        runs.append(dict(what=c['what'], text=c['text'], cmd="abra --standard-modules <repo>/modules --check main.abra", rc=rc,
                         stderr=ANSI.sub('', err)[:700], host_panicked=host_panic,
                         note="" if is_panic_class else "clause violation (not a panic): not observable through the CLI, not replayed"))
        if is_panic_class and host_panic:
            confirmed_any = True
    info = dict(replayed=runs, expected="the checker returns diagnostics or success; it never panics (C04)")
    panic_runs = [r for r in runs if r['what'].startswith("panic")]
    if not panic_runs:
        return None, info
    if confirmed_any:
        return True, info
    return False, info
