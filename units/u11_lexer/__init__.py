"""U11: the lexer.  /repo/abra_core/src/parse/lexer.rs is copied VERBATIM (file slice, rule
R6) from /repo's current working tree into a scratch Kani crate as `src/parse/lexer_real.rs`;
`src/parse/lexer.rs` is the two-line wrapper

    include!("lexer_real.rs");
    #[cfg(kani)] mod u11 { use super::*; include!("u11_harness.rs"); }

so the harnesses live in a child module of the real file's module (private items visible)
and the real text is byte-identical on disk (its sha256 is recorded per obligation).
`crate::ast::FileId` and `crate::statics::{Error, StaticsContext}` resolve to the
hand-written stubs stubs_ast.rs / stubs_statics.rs (exactly the names the file uses).
The one lifted slice is the `'/' => { .. }` arm of tokenize_file (comments), cut by name on
every run and wrapped as `fn arm_slash(lexer: &mut Lexer)`; the same arm is also exercised
in place by the whole-tokenize harnesses.

Back end: Kani/CBMC, every obligation BOUNDED (input length, alphabet).
"""
import hashlib
import os
import re
import shutil
import subprocess
import time

import slicer as S
import engine as E
import abra_cli

HERE = os.path.dirname(os.path.abspath(__file__))
UNIT = "U11-lexer"
LEX = 'abra_core/src/parse/lexer.rs'
MOD = "parse::lexer::u11::"

CARGO = """[package]
name = "u11lex"
version = "0.1.0"
edition = "2024"
[dependencies]
strum = { version = "0.27.2", features = ["derive"] }
strum_macros = "0.27.2"
[lints.rust]
unexpected_cfgs = { level = "allow" }
[workspace]
"""

LIB = """#![allow(dead_code, unused_imports, unused_variables, unused_mut, unused_assignments, clippy::all)]
pub mod ast;
pub mod statics;
pub mod parse;
pub mod shim {
    /// R7 stand-in for `format!("{d2}{d3}")` (std::fmt is unaffordable in CBMC: indirect
    /// calls through fmt::Argument function pointers): the two chars, in order.
    pub fn two_chars(a: char, b: char) -> String {
        let mut buf = [0u8; 8];
        let n = a.encode_utf8(&mut buf).len();
        let m = b.encode_utf8(&mut buf[n..]).len();
        // SAFETY: two UTF-8 encodings back to back
        unsafe { String::from_utf8_unchecked(buf[..n + m].to_vec()) }
    }
}
"""

R7_OLD = 'u8::from_str_radix(&format!("{d2}{d3}"), 16)'
R7_NEW = 'u8::from_str_radix(&crate::shim::two_chars(d2, d3), 16)'

PARSE = """// stand-in for abra_core/src/parse.rs: only the two lines that concern the lexer
pub(crate) use lexer::Span;
pub(crate) mod lexer;
"""

WRAP = """include!("lexer_real.rs");
#[cfg(kani)]
mod u11 {
    use super::*;
    include!("u11_harness.rs");
}
"""

# alphabets (must mirror harness.rs; used to decode concrete playback values)
T_ALL = ['a', '7', '_', '.', '/', '*', '"', "'", '\\', '\n', ' ', 'é', '😀', 'x', 'n', '+']
T_CMT = ['*', '/', '\n', 'a', 'é', ' ']
T_ESC = ['\\', 'x', 'n', '"', "'", 'a', '7', '+', 'é', '😀']
T_NUM = ['7', '_', '.', 'a', ' ', 'é']
T_SPAN = ['*', '7', 'a', ' ', '\n', 'é', '😀']

# bounds per tier: N = max input length in chars, U = loop unwinding
BOUNDS = {
    "quick": dict(N_SCAN=4, U_SCAN=7, N_ESC=4, U_ESC=6, N_NUM=4, U_NUM=6, N_CMT=5, U_CMT=9,
                  N_TOK=2, U_TOK=5, N_SPAN=4, U_SPAN=6, SCAP=24),
    "thorough": dict(N_SCAN=6, U_SCAN=10, N_ESC=6, U_ESC=10, N_NUM=6, U_NUM=10, N_CMT=7, U_CMT=11,
                     N_TOK=3, U_TOK=14, N_SPAN=3, U_SPAN=14, SCAP=32),
}


def lift_slash_arm():
    """The `'/' => { BODY }` arm of tokenize_file as `fn arm_slash(lexer: &mut Lexer) { BODY }`."""
    fn = S.item(LEX, r'pub\(crate\) fn tokenize_file\(')
    head, guard, body, is_block = S.match_arm(fn, r"'/' =>", ' ' * 12)
    if guard or not is_block or head != "'/'":
        raise S.SliceError("lexer '/' arm has an unexpected shape: %r" % head)
    # the arm must talk about the lexer only through the local `lexer`
    if re.search(r'\b(ctx|file_id|file_data)\b', body):
        raise S.SliceError("lexer '/' arm mentions ctx/file_id: lifting would change its meaning")
    text = ("\n// ---- real arm `'/' => {..}` of tokenize_file (lexer.rs), lifted verbatim ----\n"
            "fn arm_slash(lexer: &mut Lexer) {%s}\n" % body)
    return text, S.sha(body)


def build(dirpath, tier, r7=False):
    """Write the scratch crate.  r7=False: lexer.rs byte-for-byte.  r7=True: the same text with
    the single enumerated rewrite R7 (used by the `escapes` obligation only).
    Returns dict(real_sha, arm_sha, bounds, r7_count)."""
    b = BOUNDS[tier]
    real_path = os.path.join(S.REPO, LEX)
    with open(real_path, 'rb') as f:
        raw = f.read()
    real_sha = hashlib.sha256(raw).hexdigest()[:16]
    os.makedirs(os.path.join(dirpath, "src", "parse"), exist_ok=True)
    r7_count = 0
    out = raw
    if r7:
        pei = S.item(LEX, r'fn process_escapes_into\(')
        r7_count = pei.count(R7_OLD)
        if r7_count > 1 or (r7_count == 0 and 'format!' in pei):
            raise S.SliceError("R7 anchor %r found %d times in process_escapes_into" % (R7_OLD, r7_count))
        if raw.decode("utf-8").count(R7_OLD) != r7_count:
            raise S.SliceError("R7 anchor occurs outside process_escapes_into")
        out = raw.decode("utf-8").replace(R7_OLD, R7_NEW).encode("utf-8")
    with open(os.path.join(dirpath, "src", "parse", "lexer_real.rs"), "wb") as f:
        f.write(out)  # byte-for-byte unless r7
    # the names the file imports from the rest of abra_core (R6): refuse silently drifting imports
    text = raw.decode("utf-8")
    crate_uses = sorted(set(re.findall(r'^use (crate::[^;]+);', text, re.M)))
    want = ['crate::ast::FileId', 'crate::statics::{Error, StaticsContext}']
    if crate_uses != want:
        raise S.SliceError("lexer.rs imports changed: %r (stubs cover %r)" % (crate_uses, want))
    arm, arm_sha = lift_slash_arm()
    with open(os.path.join(HERE, "harness.rs"), encoding="utf-8") as f:
        h = f.read()
    for k, v in b.items():
        h = h.replace("@%s@" % k, str(v))
    left = re.findall(r'@[A-Z_]+@', h)
    if left:
        raise E.Undecided("u11: unfilled placeholders %r" % left)
    w = lambda rel, s: open(os.path.join(dirpath, rel), "w", encoding="utf-8").write(s)
    w("Cargo.toml", CARGO)
    lock = os.path.join(S.REPO, "Cargo.lock")
    if os.path.exists(lock):
        shutil.copy(lock, os.path.join(dirpath, "Cargo.lock"))  # pins strum 0.27.2 as in /repo
    w("src/lib.rs", LIB)
    w("src/parse.rs", PARSE)
    w("src/parse/lexer.rs", WRAP)
    w("src/parse/u11_harness.rs", h + arm)
    shutil.copy(os.path.join(HERE, "stubs_ast.rs"), os.path.join(dirpath, "src", "ast.rs"))
    shutil.copy(os.path.join(HERE, "stubs_statics.rs"), os.path.join(dirpath, "src", "statics.rs"))
    return dict(real_sha=real_sha, arm_sha=arm_sha, bounds=b, crate_uses=crate_uses, r7_count=r7_count)
