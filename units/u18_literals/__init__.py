"""U18: bounded stand-in for the parser half of C30 (`parse_expr_term`'s literal arms are inside the
Pratt parser and could not be brought under contract): a fixed table of boundary literals is run on the
real CLI built from /repo and compared with the value the literal spells (Python big ints / floats).
Labelled bounded; never counted as proof."""
import os
import time
import engine as E
import abra_cli

UNIT = "U18-literals"
MAXI, MINI = (1 << 63) - 1, -(1 << 63)


def _us(n):
    s = str(abs(n))
    out = ""
    while len(s) > 3:
        out = "_" + s[-3:] + out
        s = s[:-3]
    return ("-" if n < 0 else "") + s + out


def int_cases():
    vals = [0, 1, 7, 10, 255, 65535, 4294967295, 4294967296, 1 << 53, (1 << 53) + 1, (1 << 62), MAXI - 1, MAXI]
    ok = []
    for v in vals:
        ok.append((str(v), v))
        ok.append((_us(v), v))
        ok.append(("-" + str(v), -v))
    ok.append(("-9223372036854775808", MINI))
    ok.append(("-9_223_372_036_854_775_808", MINI))
    bad = [str(MAXI + 1), _us(MAXI + 1), str(MAXI + 2), "-" + str(MAXI + 2), str(1 << 64), "18446744073709551616", "99999999999999999999", "-99999999999999999999"]
    return ok, bad


FLOATS = ["0.0", "1.0", "1.00", "0.5", "3.14", "0.1", "0.30000000000000004", "123456789.125", "9007199254740993.0", "1_000.5", "0.000001",
          "179769313486231570000000000000000000000.0", "0.1000000000000000055511151231257827"]


def run(tier="quick"):
    t0 = time.time()
    ok, bad = int_cases()
    obs = []
    prog = "\n".join("println(%s)" % lit for lit, _ in ok) + "\n"
    out, err, rc = abra_cli.run_program(prog, timeout=120)
    got = out.strip().split("\n")
    mism = []
    for i, (lit, v) in enumerate(ok):
        g = got[i] if i < len(got) else "<missing: %s>" % err.strip().split("\n")[0][:120]
        if g != str(v):
            mism.append("literal %s evaluates to %s, expected %d" % (lit, g, v))
    obs.append(E.Obligation("C30.cli.int_literal.in_range", ["C30"], UNIT, "Parser::parse_expr_term (IntLit arms) via the real CLI", "bounded: run on the real CLI",
                            E.FAILED if mism else E.DISCHARGED, "; ".join(mism[:4]), time.time() - t0, "abra_core/src/parse.rs", "",
                            "%d boundary integer literals (plain, with `_` separators, negated)" % len(ok),
                            "every in-range integer literal (optional `_`, possibly negated) evaluates to the integer it spells"))
    t1 = time.time()
    mism = []
    for lit in bad:
        out, err, rc = abra_cli.run_program("let x = %s\nprintln(x)\n" % lit)
        if rc == 0 or "panicked" in err:
            mism.append("out-of-range literal %s: %s" % (lit, ("accepted, prints " + out.strip()) if rc == 0 else "host panic"))
    obs.append(E.Obligation("C30.cli.int_literal.out_of_range", ["C30"], UNIT, "Parser::parse_expr_term (IntLit arms) via the real CLI", "bounded: run on the real CLI",
                            E.FAILED if mism else E.DISCHARGED, "; ".join(mism[:4]), time.time() - t1, "abra_core/src/parse.rs", "",
                            "%d integer literals just outside the i64 range" % len(bad),
                            "an integer literal outside [-2^63, 2^63-1] is reported as a diagnostic (no value, no host panic)"))
    t2 = time.time()
    mism = []
    # float literal == the same value obtained by exact integer/decimal arithmetic inside the program is not expressible;
    # compare printed round trip: println(x) must parse back (Python float) to float(lit)
    prog = "\n".join("println(%s)" % f for f in FLOATS) + "\n"
    out, err, rc = abra_cli.run_program(prog, timeout=60)
    got = out.strip().split("\n")
    for i, f in enumerate(FLOATS):
        g = got[i] if i < len(got) else "<missing: %s>" % err.strip().split("\n")[0][:120]
        try:
            same = float(g) == float(f.replace("_", ""))
        except ValueError:
            same = False
        if not same:
            mism.append("float literal %s prints %s" % (f, g))
    obs.append(E.Obligation("C30.cli.float_literal.nearest", ["C30", "C16"], UNIT, "Parser::parse_expr_term (FloatLit arm) via the real CLI", "bounded: run on the real CLI",
                            E.FAILED if mism else E.DISCHARGED, "; ".join(mism[:4]), time.time() - t2, "abra_core/src/parse.rs", "",
                            "%d float literals; printed value parsed back with Python's correctly rounded float()" % len(FLOATS),
                            "every float literal evaluates to the nearest binary64 of its decimal spelling (assumes f64::to_string round-trips)"))
    obs.append(multiline_obligation())
    want = os.environ.get("ABRA_VERIF_PROP")
    if want:
        obs = [o for o in obs if want in o.props]
    info = dict(assumptions=["U18: black-box bounded stand-in for parse_expr_term's literal arms (not a contract on the function)",
                             "U18: f64::to_string / Python float() are correctly rounded and round-trip"],
                trusted_base=["the real CLI built from /repo", "Python int/float"], checker_cmds=["target/debug/abra main.abra (programs generated by units/u18_literals)"], notes={})
    return obs, info


def dedent_expected(raw):
    """Indentation stripping of a triple-quoted literal, written from the property statement: the text between the delimiters is
    split into lines; a whitespace-only remainder of the opening line and a whitespace-only line before the closing delimiter are
    not part of the text; the common indentation of the non-blank lines (text on the opening line kept verbatim and not counted)
    is removed from every line; blank lines stay as empty lines."""
    lines = raw.split("\n")
    if len(lines) > 1 and lines[-1].strip() == "":
        lines = lines[:-1]
    first_kept = lines and lines[0].strip() != ""
    if not first_kept:
        lines = lines[1:]
    body = lines[1:] if first_kept else lines
    ind = [len(l) - len(l.lstrip(" ")) for l in body if l.strip() != ""]
    k = min(ind) if ind else 0
    out = ([lines[0]] if first_kept else []) + [l[k:] if l.strip() != "" else "" for l in body]
    return "\n".join(out)


def multiline_obligation():
    import itertools
    t0 = time.time()
    atoms = ["", "x", "  x", "    yz"]
    cases = []
    for first in ("", "p"):
        for n in (1, 2, 3):
            for body in itertools.product(atoms, repeat=n):
                if first == "" and body[0] == "":
                    continue   # leading blank lines: not stated by the property, left out of the domain
                for closing in ("\n", "\n    ", ""):
                    if closing == "" and body[-1] == "":
                        continue
                    raw = first + "\n" + "\n".join(body) + closing
                    cases.append(raw)
    prog = "".join('println("<<" .. """%s""" .. ">>")\n' % raw for raw in cases)
    out, err, rc = abra_cli.run_program(prog, timeout=300)
    mism = []
    if rc != 0:
        mism.append("the batch of %d literals is rejected: %s" % (len(cases), (out + err).strip().split("\n")[0][:200]))
    else:
        got = [g.split(">>")[0] for g in out.split("<<")[1:]]
        for i, raw in enumerate(cases):
            w = dedent_expected(raw)
            g = got[i] if i < len(got) else "<missing>"
            if g != w:
                mism.append("literal \"\"\"%s\"\"\" evaluates to %r, expected %r" % (raw.replace("\n", "\\n"), g, w))
                if len(mism) >= 6:
                    break
    return E.Obligation("C30.cli.multiline_string.dedent", ["C30"], UNIT, "handle_multiline_string via the real CLI", "bounded: run on the real CLI",
                        E.FAILED if mism else E.DISCHARGED, "; ".join(mism[:4]), time.time() - t0, "abra_core/src/parse/lexer.rs", "",
                        "%d triple-quoted literals: text or nothing on the opening line, 1-3 body lines from {blank, `x`, 2-space `x`, 4-space `yz`}, closing "
                        "delimiter after the text / on its own line with 0 or 4 spaces; black-box stand-in, not a proof" % len(cases),
                        "a triple-quoted literal evaluates to its lines with the common indentation of the non-blank lines removed (blank lines kept, "
                        "opening-line text verbatim, whitespace-only first/last line dropped)")


def replay(ob):
    # the obligation IS a run on the real code; its detail names the failing literal
    return (True if ob.detail else None), dict(failing=ob.detail)
