"""U9 generators: everything here is computed from /repo's current text.

* `layout()`  -- per assembly opcode, which tuple position is read first / second from
  the stack and which is written last, derived from the *VM arm* that executes the
  opcode (vm.rs step()) through the operand mapping of `instr_to_vminstr`
  (assembly.rs).  Nothing is taken from the optimizer.
* `verus_support(...)` -- Verus spec functions generated from the sliced `enum Instr`:
  reg_at(), with_reg(), src1_pos()/src2_pos()/dest_pos(), imm_form(), the name-derived
  Imm-twin maps twin_int()/twin_float(); `verus_narrow_imm` -- opcodes whose constant index is
  cast `as u16`.  A variant added to the enum shows up in all of them (or the generator raises
  SliceError => UNDECIDED).
"""
import re
import slicer as S

ASM = 'abra_core/src/assembly.rs'
VM = 'abra_core/src/vm.rs'
OPT = 'abra_core/src/optimize_bytecode.rs'

SCALARS = {'i16', 'u16', 'u32', 'usize', 'bool', 'AbraInt'}
TOKS = {'String', 'Label'}


def split_args(s):
    """split at depth-0 commas"""
    out, depth, cur = [], 0, ''
    i = 0
    while i < len(s):
        c = s[i]
        if c in '([{':
            depth += 1
        elif c in ')]}':
            depth -= 1
        if c == ',' and depth == 0:
            out.append(cur.strip())
            cur = ''
        else:
            cur += c
        i += 1
    if cur.strip():
        out.append(cur.strip())
    return out


def asm_variants():
    enum = S.item(ASM, r'pub enum Instr \{')
    vs = S.enum_variants(enum)
    norm = {}
    for name, p in vs.items():
        if isinstance(p, dict):
            norm[name] = dict(kind='struct', fields=list(p.items()))
        else:
            norm[name] = dict(kind='tuple', fields=[(None, t) for t in p])
        for _, t in norm[name]['fields']:
            if t not in SCALARS and t not in TOKS and t != 'Reg':
                raise S.SliceError("Instr::%s: payload type %r not known to the U9 generator" % (name, t))
    return enum, norm


def asm_to_vm():
    """asm variant -> dict(vm=<VM variant>, binders=[asm binder names], args=[(kind, binder)])
    kind in reg | int_imm | float_imm | str_imm | other, parsed from instr_to_vminstr."""
    fn = S.item(ASM, r'fn instr_to_vminstr\(')
    _, variants = asm_variants()
    out = {}
    narrow = []
    for name, info in variants.items():
        head, guard, body, is_block = S.match_arm(fn, r'Instr::%s\b' % name, ' ' * 8)
        if guard:
            raise S.SliceError("instr_to_vminstr arm %s has a guard" % name)
        pm = re.match(r'Instr::%s\s*(?:\((.*)\)|\{(.*)\})?\s*$' % name, head, re.S)
        if not pm:
            raise S.SliceError("instr_to_vminstr: cannot parse head %r" % head)
        binders = [b.strip() for b in (pm.group(1) or pm.group(2) or '').split(',') if b.strip()]
        if len(binders) != len(info['fields']):
            raise S.SliceError("instr_to_vminstr %s: binder count" % name)
        b = body.strip()
        bm = re.match(r'VmInstr::(\w+)\s*(?:\((.*)\)|\{(.*)\})?\s*,?\s*$', b, re.S)
        if not bm:
            raise S.SliceError("instr_to_vminstr %s: body is not a single VmInstr constructor: %r" % (name, b[:80]))
        args = []
        for a in split_args(bm.group(2) or bm.group(3) or ''):
            a = re.sub(r'^\w+\s*:\s*', '', a)  # struct field `tag: *tag`
            m = re.match(r'^(\w+)\.encode\(\)$', a)
            if m:
                args.append(('reg', m.group(1)))
                continue
            m = re.search(r'constants\s*\.\s*(int|float|string)_constants\s*\.\s*try_get_id\((\w+)\)', a)
            if m:
                args.append(({'int': 'int_imm', 'float': 'float_imm', 'string': 'str_imm'}[m.group(1)], m.group(2)))
                if re.search(r'\bas u16\b', a):
                    narrow.append((name, m.group(1)))
                continue
            m = re.search(r'\b(%s)\b' % '|'.join(map(re.escape, binders)), a) if binders else None
            args.append(('other', m.group(1) if m else None))
        out[name] = dict(vm=bm.group(1), binders=binders, args=args)
    out['__narrow__'] = narrow
    return out


STACK_EVENT = re.compile(
    r'self\s*\.\s*(load_offset_or_top|store_offset_or_top|load_offset|store_offset|pop_n|pop_int|pop_float|pop_bool|pop|push_int|push_str|push|top|set_top)\s*\(\s*(\w*)'
    r'|self\s*\.\s*(value_stack)\b'
    r'|self\s*\.\s*((?:construct|deconstruct)_\w+)\s*\('
    r'|(deep_copy)\s*\(')


def vm_events(vmname):
    """Stack events of the VM arm in textual order: list of (kind, binder, depth).
    kind: L (load_offset_or_top), S (store_offset_or_top), X (anything else touching the stack)."""
    arm = S.step_arm(vmname)
    body = arm['body']
    ev = []
    # brace depth at each offset (ignoring strings / comments)
    depth_at = [0] * (len(body) + 1)
    i, d = 0, 0
    while i < len(body):
        j = S._skip_noncode(body, i)
        if j != i:
            for k in range(i, j):
                depth_at[k] = d
            i = j
            continue
        if body[i] == '{':
            d += 1
        elif body[i] == '}':
            d -= 1
        depth_at[i] = d
        i += 1
    for m in S._find_code(body, STACK_EVENT.pattern):
        if m.group(1) == 'load_offset_or_top':
            ev.append(('L', m.group(2), depth_at[m.start()]))
        elif m.group(1) == 'store_offset_or_top':
            ev.append(('S', m.group(2), depth_at[m.start()]))
        else:
            ev.append(('X', m.group(1) or m.group(3) or m.group(4) or m.group(5), depth_at[m.start()]))
    # re-execution (pc decrement) makes Top operands position-dependent: irregular
    reexec = bool(re.search(r'self\s*\.\s*pc\s*\.\s*0\s*-=', body))
    return dict(params=[b for b, _ in arm['params']], events=ev, reexec=reexec, raw=arm['raw'])


def layout():
    """asm variant -> dict(src1, src2, dest, imm=(kind,pos)|None, vm, regular, events)
    src1 = tuple position of the register operand fetched FIRST by the VM arm (and before any
           other stack access), src2 = position of the register fetched directly after it,
    dest = position of the register written by the arm's LAST stack access.
    All None when the arm does not have that shape."""
    m = asm_to_vm()
    m.pop('__narrow__', None)
    out = {}
    for name, mm in m.items():
        ent = dict(src1=None, src2=None, dest=None, imm=None, vm=mm['vm'], regular=False, events='')
        # asm binder -> asm position ; vm param index -> asm binder
        apos = {b: i for i, b in enumerate(mm['binders'])}
        for k, (kind, b) in enumerate(mm['args']):
            if kind in ('int_imm', 'float_imm'):
                ent['imm'] = (kind, apos[b])
        try:
            ve = vm_events(mm['vm'])
        except S.SliceError as ex:
            if 'not in enum' in str(ex):
                raise
            out[name] = ent  # expression arm calling a helper etc.: no layout
            continue
        ent['events'] = ' '.join('%s(%s)' % (k, b) for k, b, _ in ve['events'])
        if len(ve['params']) != len(mm['args']):
            raise S.SliceError("VM arm %s: %d binders, instr_to_vminstr passes %d operands" % (mm['vm'], len(ve['params']), len(mm['args'])))
        vmparam_to_asm = {}
        for k, p in enumerate(ve['params']):
            kind, b = mm['args'][k]
            if kind == 'reg':
                vmparam_to_asm[p] = apos[b]
        evs = ve['events']
        if ve['reexec'] or any(d != 0 for _, _, d in evs):
            out[name] = ent
            continue
        ent['regular'] = True
        if evs and evs[0][0] == 'L' and evs[0][1] in vmparam_to_asm:
            ent['src1'] = vmparam_to_asm[evs[0][1]]
            if len(evs) > 1 and evs[1][0] == 'L' and evs[1][1] in vmparam_to_asm:
                ent['src2'] = vmparam_to_asm[evs[1][1]]
        if evs and evs[-1][0] == 'S' and evs[-1][1] in vmparam_to_asm:
            # the store must be the only S and come after every load
            if sum(1 for e in evs if e[0] == 'S') == 1:
                ent['dest'] = vmparam_to_asm[evs[-1][1]]
        out[name] = ent
    return out


IRREGULAR_TWINS = {'ArrayPush': 'ArrayPushIntImm'}  # documented irregular name (no float twin)


def twins(variants):
    """Imm twin by NAME: X <-> XImm, plus the documented irregular pair.  Kind from the
    twin's last payload type (AbraInt => int, String => float)."""
    out = {}
    for name in variants:
        t = name + 'Imm'
        if t not in variants:
            t = IRREGULAR_TWINS.get(name)
        if not t or t not in variants:
            continue
        lastty = variants[t]['fields'][-1][1]
        kind = 'int' if lastty == 'AbraInt' else 'float' if lastty == 'String' else None
        if kind and name != 'StoreOffset':
            out[name] = (t, kind)
    return out


# ------------------------------------------------------------------ pattern helper

def _pat(name, info, prefix):
    n = len(info['fields'])
    if n == 0:
        return 'Instr::%s' % name
    if info['kind'] == 'struct':
        return 'Instr::%s { %s }' % (name, ', '.join('%s: %s%d' % (f, prefix, i) for i, (f, _) in enumerate(info['fields'])))
    return 'Instr::%s(%s)' % (name, ', '.join('%s%d' % (prefix, i) for i in range(n)))


# ------------------------------------------------------------------ Verus generation

def _vpat(name, info, prefix):
    return _pat(name, info, prefix)


def verus_support(variants, lay, tw):
    """Spec functions over the sliced `enum Instr`, generated for Verus."""
    names = list(variants)
    o = ["// ===== generated from the sliced `enum Instr` (%d variants), `instr_to_vminstr` and the VM arms =====" % len(names)]
    # reg_at
    o.append("spec fn reg_at(i: Instr, pos: int) -> Option<Reg> {\n    match i {")
    for n in names:
        info = variants[n]
        idx = [k for k, (_, t) in enumerate(info['fields']) if t == 'Reg']
        if not idx:
            continue
        body = ' else '.join('if pos == %d { Some(a%d) }' % (k, k) for k in idx) + ' else { None }'
        o.append("        %s => %s," % (_vpat(n, info, 'a'), body))
    o.append("        _ => None,\n    }\n}")
    # with_reg
    o.append("/// `i` with the register operand at tuple position `pos` replaced by `r` (identity if there is none)")
    o.append("spec fn with_reg(i: Instr, pos: int, r: Reg) -> Instr {\n    match i {")
    for n in names:
        info = variants[n]
        idx = [k for k, (_, t) in enumerate(info['fields']) if t == 'Reg']
        if not idx:
            continue
        alts = []
        for k in idx:
            args = ', '.join(('r' if j == k else 'a%d' % j) for j in range(len(info['fields'])))
            alts.append('if pos == %d { Instr::%s(%s) }' % (k, n, args))
        o.append("        %s => %s else { i }," % (_vpat(n, info, 'a'), ' else '.join(alts)))
    o.append("        _ => i,\n    }\n}")
    for key, doc in (('src1', 'register fetched FIRST by the VM arm, before any other stack access'),
                     ('src2', 'register fetched directly after src1'),
                     ('dest', 'register written by the LAST stack access of the VM arm')):
        o.append("/// from vm.rs step(): tuple position of the %s" % doc)
        o.append("spec fn %s_pos(i: Instr) -> Option<int> {\n    match i {" % key)
        for n in names:
            v = lay[n][key]
            if v is not None:
                info = variants[n]
                p = 'Instr::%s' % n + ('' if not info['fields'] else ' { .. }' if info['kind'] == 'struct' else '(..)')
                o.append("        %s => Some(%dint), // vm %s: %s" % (p, v, lay[n]['vm'], lay[n]['events']))
        o.append("        _ => None,\n    }\n}")
    o.append("/// from instr_to_vminstr: the opcode carries a constant-table immediate (int or float)")
    o.append("spec fn imm_form(i: Instr) -> bool {\n    match i {")
    for n in names:
        im = lay[n]['imm']
        if im and lay[n]['src1'] is not None:
            info = variants[n]
            o.append("        Instr::%s(..) => true," % n)
    o.append("        _ => false,\n    }\n}")
    # twins by NAME, immediate placed at the position of the register fetched first
    for kind, ity in (('int', 'AbraInt'), ('float', 'String')):
        o.append("/// Imm twin by opcode NAME (X -> XImm; ArrayPush -> ArrayPushIntImm): the immediate takes the place of\n"
                 "/// the register the VM arm of X fetches first, every other operand is carried over")
        o.append("spec fn twin_%s(i: Instr, k: %s) -> Option<Instr> {\n    match i {" % (kind, ity))
        for n, (t, kd) in tw.items():
            if kd != kind:
                continue
            info, tinfo = variants[n], variants[t]
            p = lay[n]['src1']
            if p is None:
                raise S.SliceError("twin %s: VM arm has no first-fetched register" % n)
            if len(info['fields']) != len(tinfo['fields']):
                raise S.SliceError("twin %s/%s: arity differs" % (n, t))
            for j, ((_, ta), (_, tb)) in enumerate(zip(info['fields'], tinfo['fields'])):
                want = ity if j == p else ta
                if tb != want:
                    raise S.SliceError("twin %s/%s: operand %d has type %s, expected %s" % (n, t, j, tb, want))
            # the twin's VM arm must fetch the remaining register first and write the same dest
            if lay[t]['src1'] != lay[n]['src2'] or lay[t]['dest'] != lay[n]['dest'] or lay[t]['src2'] is not None \
                    or not lay[t]['imm'] or lay[t]['imm'][1] != p:
                raise S.SliceError("twin %s/%s: VM operand layouts do not correspond" % (n, t))
            args = ', '.join(('k' if j == p else 'a%d' % j) for j in range(len(info['fields'])))
            o.append("        %s => Some(Instr::%s(%s))," % (_vpat(n, info, 'a'), t, args))
        o.append("        _ => None,\n    }\n}")
    return '\n'.join(o) + '\n'


def reflect_matches(impl_text, method):
    """`fn m(&self) -> bool { matches!(self, PATS) }`  ->  PATS (text)."""
    m = re.search(r'^    fn %s\(&self\) -> bool \{\s*matches!\(\s*self,\s*(.*?)\)\s*\}' % method, impl_text, re.S | re.M)
    if not m:
        raise S.SliceError("impl Instr::%s is not a single matches!(self, ..)" % method)
    pats = re.sub(r'//[^\n]*', '', m.group(1)).strip().rstrip(',')
    return pats


def verus_narrow_imm(variants):
    """Opcodes whose constant-table operand is narrowed `as u16` by instr_to_vminstr."""
    nar = asm_to_vm()['__narrow__']
    o = []
    for kind in ('int', 'float'):
        o.append("/// from instr_to_vminstr: the %s-constant index of this opcode is cast `as u16`" % kind)
        o.append("spec fn is_%s_imm(i: Instr) -> bool {\n    match i {" % kind)
        for n, k in nar:
            if k == kind:
                info = variants[n]
                o.append("        Instr::%s%s => true," % (n, '' if not info['fields'] else '(..)'))
        o.append("        _ => false,\n    }\n}")
    return '\n'.join(o) + '\n', nar
