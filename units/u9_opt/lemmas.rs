// ---------------------------------------------------------------------------
// U9 semantic side: window-rewrite lemmas over the VM stack vocabulary of
// units/vmenv/spec.rs (reg_val / reg_after_load / reg_after_store).
//
// An arm of step() with the shape   b = fetch(reg2); a = fetch(reg1); <anything>   is a
// function of its FETCH PHASE  (a, b, rest)  -- rest = the stack after both fetches.  This is
// exactly the shape of the U1/U2/U5 arm contracts (bin_a / bin_b / bin_rest), and of
// GetIndex / SetIndex / ArrayPush / SetField / GetField (which push, pop a third value or
// write the heap AFTER the fetch phase).  So a window rewrite that leaves the fetch phase
// unchanged leaves the arm's whole effect (stack, heap, result, error) unchanged.
// ---------------------------------------------------------------------------

pub const TOP: u16 = 0x8000;

/// assembly.rs Reg::encode on Offset(x), -16384 <= x <= 16383  (tied to the real text, bit-precisely,
/// by the Kani harness reg_offset_roundtrip: Reg::Offset(n).encode() == enc_off(n))
spec fn enc_off(x: int) -> u16 { if x >= 0 { x as u16 } else { (x + 0x8000) as u16 } }
spec fn off_range(x: int) -> bool { -16384 <= x <= 16383 }

proof fn lemma_enc_off(x: int)
    requires off_range(x),
    ensures !reg_top(enc_off(x)), reg_off(enc_off(x)) == x,
{
}

// ---- fetch phases ---------------------------------------------------------------
pub struct Fetch2 { pub a: Value, pub b: Value, pub rest: Seq<Value> }
pub struct Fetch1 { pub a: Value, pub rest: Seq<Value> }

/// two-source arm: reg2 fetched first, then reg1 (vm.rs: `let b = self.load_offset_or_top(reg2)..; let a = self.load_offset_or_top(reg1)..;`)
spec fn fetch2(s: Seq<Value>, base: int, r1: u16, r2: u16) -> Fetch2 {
    let s1 = reg_after_load(s, r2);
    Fetch2 { a: reg_val(s1, base, r1), b: reg_val(s, base, r2), rest: reg_after_load(s1, r1) }
}
/// one-source arm (unary, immediate forms, GetField/SetField/ArrayLength/ArrayPop)
spec fn fetch1(s: Seq<Value>, base: int, r: u16) -> Fetch1 {
    Fetch1 { a: reg_val(s, base, r), rest: reg_after_load(s, r) }
}
/// the fetch phase is the U1 operand plumbing (units/u1_int/spec.rs bin_a / bin_b / bin_rest)
proof fn lemma_fetch2_is_arm_contract(t: VmGreenThread, r1: u16, r2: u16)
    ensures ({ let f = fetch2(t.value_stack@, t.stack_base as int, r1, r2);
               f.a == bin_a(t, r1, r2) && f.b == bin_b(t, r2) && f.rest == bin_rest(t, r1, r2) }),
            ({ let f = fetch1(t.value_stack@, t.stack_base as int, r1);
               f.a == imm_a(t, r1) && f.rest == imm_rest(t, r1) }),
{
}

// ---- the simple stack instructions (transcribed from their vm.rs arms; contracts of unit U4) --
/// Instr::LoadOffset(n):   let v = self.load_offset(n); self.push(v);
spec fn ex_load_offset(s: Seq<Value>, base: int, x: int) -> Seq<Value> { s.push(s[base + x]) }
spec fn load_offset_ok(s: Seq<Value>, base: int, x: int) -> bool { 0 <= base + x < s.len() }
/// Instr::StoreOffset(n):  let v = self.pop(); self.store_offset(n, v);
spec fn ex_store_offset(s: Seq<Value>, base: int, n: int) -> Seq<Value> { s.drop_last().update(base + n, s.last()) }
spec fn store_offset_ok(s: Seq<Value>, base: int, n: int) -> bool { s.len() > 0 && 0 <= base + n < s.len() - 1 }
/// Instr::StoreOffsetImm(n, imm): self.store_offset(n, int_constants[imm]);
spec fn ex_store_offset_imm(s: Seq<Value>, base: int, n: int, k: i64) -> Seq<Value> { s.update(base + n, val_int(k)) }
/// Instr::PushNil(n): for _ in 0..n { self.push(0) }
uninterp spec fn nil_value() -> Value;
spec fn ex_push_nil(s: Seq<Value>, n: nat) -> Seq<Value> decreases n {
    if n == 0 { s } else { ex_push_nil(s, (n - 1) as nat).push(nil_value()) }
}
/// conditional jumps: (stack after pop_bool, branch taken?)
pub struct JumpEff { pub stack: Seq<Value>, pub taken: bool }
spec fn ex_jump_if(s: Seq<Value>) -> JumpEff { JumpEff { stack: s.drop_last(), taken: bool_of(s.last()) } }
spec fn ex_jump_if_false(s: Seq<Value>) -> JumpEff { JumpEff { stack: s.drop_last(), taken: !bool_of(s.last()) } }
/// Instr::Not(dest, reg): let a = fetch(reg).get_bool(); store(dest, !a)
spec fn ex_not(s: Seq<Value>, base: int, d: u16, r: u16) -> Seq<Value> {
    let f = fetch1(s, base, r);
    reg_after_store(f.rest, base, d, val_bool(!bool_of(f.a)))
}

// ---- F1: LoadOffset(x); Op(.., r1, Top)  ==  Op(.., r1, Offset x) -------------------
// No side condition beyond LoadOffset itself being in range (it would fault otherwise) and x
// being encodable as a register (|x| < 2^14: NOT checked by the optimizer, see
// C05.opt.peephole2.encodable).
proof fn lemma_F1(s: Seq<Value>, base: int, x: int, r1: u16)
    requires off_range(x), load_offset_ok(s, base, x),
    ensures fetch2(ex_load_offset(s, base, x), base, r1, TOP) == fetch2(s, base, r1, enc_off(x)),
{
    lemma_enc_off(x);
    let s2 = ex_load_offset(s, base, x);
    assert(s2.drop_last() == s);
    assert(reg_top(TOP));
}
// F1u: one-source arms (unary ops, immediate forms: the optimizer's "first argument" of an
// XImm opcode is the ONLY register and therefore fetched first)
proof fn lemma_F1u(s: Seq<Value>, base: int, x: int)
    requires off_range(x), load_offset_ok(s, base, x),
    ensures fetch1(ex_load_offset(s, base, x), base, TOP) == fetch1(s, base, enc_off(x)),
{
    lemma_enc_off(x);
    assert(ex_load_offset(s, base, x).drop_last() == s);
    assert(reg_top(TOP));
}

// ---- F2: LoadOffset(x); Op(.., Top, Offset y)  ==  Op(.., Offset x, Offset y) -----------
// SIDE CONDITIONS: (a) reg2 is NOT Top -- guaranteed by the rule order of peephole2_helper
// (obligation C05.opt.peephole2.window: when both sources are Top the operand fetched first
// is the one replaced); (b) Offset y addresses a slot that exists BEFORE the LoadOffset
// pushed its copy (base + y < |s|).  The translator allocates all locals with PushNil at
// function entry and arguments live below stack_base, so every Offset it emits satisfies
// (b); that is translator code and is ASSUMED here (gap reported).
proof fn lemma_F2(s: Seq<Value>, base: int, x: int, y: int)
    requires off_range(x), off_range(y), load_offset_ok(s, base, x), 0 <= base + y < s.len(),
    ensures fetch2(ex_load_offset(s, base, x), base, TOP, enc_off(y)) == fetch2(s, base, enc_off(x), enc_off(y)),
{
    lemma_enc_off(x);
    lemma_enc_off(y);
    let s2 = ex_load_offset(s, base, x);
    assert(s2.drop_last() == s);
    assert(reg_top(TOP));
    assert(s2[base + y] == s[base + y]);
}
// why the order matters: with reg2 == Top the first-argument rewrite would swap the operands
proof fn lemma_F2_needs_order(s: Seq<Value>, base: int, x: int)
    requires off_range(x), load_offset_ok(s, base, x), s.len() >= 1, s[base + x] != s.last(),
    ensures fetch2(ex_load_offset(s, base, x), base, TOP, TOP).b != fetch2(s, base, enc_off(x), TOP).b,
{
    lemma_enc_off(x);
    assert(reg_top(TOP));
}

// ---- L3: Op(Top, ..); StoreOffset(n)  ==  Op(Offset n, ..) ------------------------------
// for every arm whose last stack access is store(dest, v) on the post-fetch stack `rest`
proof fn lemma_L3(rest: Seq<Value>, base: int, n: int, v: Value)
    requires off_range(n), 0 <= base + n < rest.len(),
    ensures ex_store_offset(reg_after_store(rest, base, TOP, v), base, n) == reg_after_store(rest, base, enc_off(n), v),
            store_offset_ok(reg_after_store(rest, base, TOP, v), base, n),
{
    lemma_enc_off(n);
    assert(reg_top(TOP));
    assert(rest.push(v).drop_last() == rest);
}

// ---- L4 (F4): PushInt k; Op(d, r1, Top)  ==  OpImm(d, r1, k) ----------------------------
// the two-source arm sees b = k and the same (a, rest) as the immediate arm (which reads k
// from the constant table: layer 1, C05.vm.XImm.same_as_X)
proof fn lemma_F4(s: Seq<Value>, base: int, kv: Value, r1: u16)
    ensures ({ let f2 = fetch2(s.push(kv), base, r1, TOP); let f1 = fetch1(s, base, r1);
               f2.b == kv && f2.a == f1.a && f2.rest == f1.rest }),
{
    assert(reg_top(TOP));
    assert(s.push(kv).drop_last() == s);
}

// ---- L5: push / pop cancellations ---------------------------------------------------
proof fn lemma_L5_push_pop(s: Seq<Value>, v: Value)
    ensures s.push(v).drop_last() == s,
{
}
proof fn lemma_L5_dup_pop(s: Seq<Value>)
    requires s.len() > 0,
    ensures s.push(s.last()).drop_last() == s,
{
}
proof fn lemma_L5_pushnil_pop(s: Seq<Value>, n: nat)
    requires n >= 1,   // n == 0 would underflow in the optimizer (`n - 1` on u16): assumed unreachable
    ensures ex_push_nil(s, n).drop_last() == ex_push_nil(s, (n - 1) as nat),
{
    assert(ex_push_nil(s, n) == ex_push_nil(s, (n - 1) as nat).push(nil_value()));
    assert(ex_push_nil(s, (n - 1) as nat).push(nil_value()).drop_last() == ex_push_nil(s, (n - 1) as nat));
}
proof fn lemma_L5_pushnil0(s: Seq<Value>)
    ensures ex_push_nil(s, 0) == s,
{
}

// ---- L6: Not(Top, Top); JumpIf(l)  ==  JumpIfFalse(l) -----------------------------------
proof fn lemma_L6(s: Seq<Value>, base: int)
    requires s.len() > 0,
    ensures ex_jump_if(ex_not(s, base, TOP, TOP)) == ex_jump_if_false(s),
{
    axiom_val_bool(!bool_of(s.last()));
    assert(reg_top(TOP));
    let f = fetch1(s, base, TOP);
    assert(f.rest == s.drop_last());
    let s2 = ex_not(s, base, TOP, TOP);
    assert(s2 == s.drop_last().push(val_bool(!bool_of(s.last()))));
    assert(s2.drop_last() == s.drop_last());
    assert(s2.last() == val_bool(!bool_of(s.last())));
}

// ---- L7: constant-condition jumps ---------------------------------------------------
proof fn lemma_L7(s: Seq<Value>, b: bool)
    ensures
        // PushBool(true); JumpIf(l) == Jump(l): stack unchanged, branch taken
        ex_jump_if(s.push(val_bool(true))) == (JumpEff { stack: s, taken: true }),
        // PushBool(true); JumpIfFalse(l) == nothing
        ex_jump_if_false(s.push(val_bool(true))) == (JumpEff { stack: s, taken: false }),
        // PushBool(false); JumpIf(l) == nothing
        ex_jump_if(s.push(val_bool(false))) == (JumpEff { stack: s, taken: false }),
{
    axiom_val_bool(true);
    axiom_val_bool(false);
    assert(s.push(val_bool(true)).drop_last() == s);
    assert(s.push(val_bool(false)).drop_last() == s);
}
// L7': PushBool(b); Not(Top, Top) == PushBool(!b)
proof fn lemma_L7_flip(s: Seq<Value>, base: int, b: bool)
    ensures ex_not(s.push(val_bool(b)), base, TOP, TOP) == s.push(val_bool(!b)),
{
    axiom_val_bool(b);
    assert(reg_top(TOP));
    assert(s.push(val_bool(b)).drop_last() == s);
}

// ---- L8: PushInt k; StoreOffset n  ==  StoreOffsetImm(n, k) -----------------------------
proof fn lemma_L8(s: Seq<Value>, base: int, n: int, k: i64)
    requires 0 <= base + n < s.len(),
    ensures ex_store_offset(s.push(val_int(k)), base, n) == ex_store_offset_imm(s, base, n, k),
            store_offset_ok(s.push(val_int(k)), base, n),
{
    assert(s.push(val_int(k)).drop_last() == s);
}
