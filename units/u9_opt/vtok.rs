// ---------------------------------------------------------------------------
// U9 (Verus side): TYPE SUBSTITUTION, stated in evidence.
//  * `String` (Label, PushString/PushFloat/XFloatImm payloads) is an opaque token: the
//    optimizer only moves and clones these payloads, and parses float spellings.
//  * `f64` inside optimize_bytecode.rs is an opaque wrapper whose arithmetic is
//    UNINTERPRETED (fadd/fsub/fmul/fdiv/fpow): the Verus side only decides structure and
//    the fold *condition*; the bit-precise float obligations are the Kani harnesses
//    fold_<Op>Float_sound.  `parse::<f64>()` / `to_string()`: `denotes(spelling)` with
//    denotes(to_string(x)) == x.  ASSUMPTION: std round trip exact, parse never fails on a
//    lexer-produced float spelling.
//  * `#[derive(Debug, Clone)]` on Instr/Reg/Line is replaced by Clone impls with the
//    contract `result == *self` (ASSUMPTION: derived Clone is a structural copy).
//  * `panic!(..)` in the replace_*/get_imm_* fall-through arms -> `vpanic()` whose
//    precondition is `false`: Verus must prove the arm unreachable at every call.
// ---------------------------------------------------------------------------
pub struct String(pub u64);
impl Clone for String {
    #[verifier::external_body]
    fn clone(&self) -> (r: Self) ensures r == *self { String(self.0) }
}

#[allow(non_camel_case_types)]
#[derive(Clone, Copy)]
pub struct f64 { pub bits: u64 }

pub uninterp spec fn fadd(a: f64, b: f64) -> f64;
pub uninterp spec fn fsub(a: f64, b: f64) -> f64;
pub uninterp spec fn fmul(a: f64, b: f64) -> f64;
pub uninterp spec fn fdiv(a: f64, b: f64) -> f64;
pub uninterp spec fn fpow(a: f64, b: f64) -> f64;
/// `x == 0.0` in IEEE arithmetic (true for +0.0 and -0.0)
pub uninterp spec fn fzero(a: f64) -> bool;
pub uninterp spec fn denotes(s: String) -> f64;
pub uninterp spec fn spelled(f: f64) -> String;

impl vstd::std_specs::ops::AddSpecImpl<f64> for f64 {
    open spec fn obeys_add_spec() -> bool { true }
    open spec fn add_req(self, rhs: f64) -> bool { true }
    open spec fn add_spec(self, rhs: f64) -> f64 { fadd(self, rhs) }
}
impl vstd::std_specs::ops::SubSpecImpl<f64> for f64 {
    open spec fn obeys_sub_spec() -> bool { true }
    open spec fn sub_req(self, rhs: f64) -> bool { true }
    open spec fn sub_spec(self, rhs: f64) -> f64 { fsub(self, rhs) }
}
impl vstd::std_specs::ops::MulSpecImpl<f64> for f64 {
    open spec fn obeys_mul_spec() -> bool { true }
    open spec fn mul_req(self, rhs: f64) -> bool { true }
    open spec fn mul_spec(self, rhs: f64) -> f64 { fmul(self, rhs) }
}
impl vstd::std_specs::ops::DivSpecImpl<f64> for f64 {
    open spec fn obeys_div_spec() -> bool { true }
    open spec fn div_req(self, rhs: f64) -> bool { true }
    open spec fn div_spec(self, rhs: f64) -> f64 { fdiv(self, rhs) }
}
impl core::ops::Add for f64 {
    type Output = f64;
    #[verifier::external_body]
    fn add(self, o: f64) -> (r: f64) ensures r == fadd(self, o) { unimplemented!() }
}
impl core::ops::Sub for f64 {
    type Output = f64;
    #[verifier::external_body]
    fn sub(self, o: f64) -> (r: f64) ensures r == fsub(self, o) { unimplemented!() }
}
impl core::ops::Mul for f64 {
    type Output = f64;
    #[verifier::external_body]
    fn mul(self, o: f64) -> (r: f64) ensures r == fmul(self, o) { unimplemented!() }
}
impl core::ops::Div for f64 {
    type Output = f64;
    #[verifier::external_body]
    fn div(self, o: f64) -> (r: f64) ensures r == fdiv(self, o) { unimplemented!() }
}
// `b == 0.0` / `b != 0.0` against a primitive literal (used by the proposed repair)
impl PartialEq<core::primitive::f64> for f64 {
    #[verifier::external_body]
    fn eq(&self, o: &core::primitive::f64) -> (r: bool) ensures *o == 0.0f64 ==> r == fzero(*self) { unimplemented!() }
}
pub trait FromTok: Sized {
    spec fn of(t: String) -> Self;
}
impl FromTok for f64 {
    open spec fn of(t: String) -> Self { denotes(t) }
}
impl String {
    #[verifier::external_body]
    pub fn parse<F: FromTok>(&self) -> (r: Result<F, ()>) ensures r == Ok::<F, ()>(F::of(*self)) { unimplemented!() }
}
impl f64 {
    #[verifier::external_body]
    pub fn to_string(&self) -> (r: String) ensures r == spelled(*self), denotes(r) == *self { unimplemented!() }
    #[verifier::external_body]
    pub fn powf(self, o: f64) -> (r: f64) ensures r == fpow(self, o) { unimplemented!() }
}

#[verifier::external_body]
fn vpanic() -> ! requires false { panic!() }
