"""Assembles the U9 scratch Kani crate from /repo's current text.

  src/tok.rs        hand-written: the String / f64 type substitution (see file header)
  src/assembly.rs   real `type Label`, `enum Line`, `enum Instr`, `enum Reg`, `impl Reg` (assembly.rs)
  src/folds.rs      float constant-fold arms lifted from peephole3_helper (real guard + real body),
                    vm_err_<Op> / vm_val_<Op> cut from the VM arm of the same opcode, harnesses
"""
import os
import re
import slicer as S
from . import gen

HERE = os.path.dirname(os.path.abspath(__file__))
ASM, VM, OPT = gen.ASM, gen.VM, gen.OPT

CARGO = """[package]
name = "u9k"
version = "0.1.0"
edition = "2024"
[dependencies]
[lints.rust]
unexpected_cfgs = { level = "allow" }
[workspace]
"""
LIB = """#![allow(dead_code, unused_imports, unused_variables, non_snake_case, unused_mut, unreachable_code, unreachable_patterns, clippy::all)]
pub mod tok;
pub mod assembly;
pub mod folds;
"""

INT_FOLDS = ['AddInt', 'SubInt', 'MulInt', 'DivInt', 'PowInt']
FLOAT_FOLDS = ['AddFloat', 'SubFloat', 'MulFloat', 'DivFloat', 'PowFloat']


def fold_arm(op):
    """(pattern, guard, body) of the constant-fold arm of peephole3_helper for opcode `op`."""
    fn = S.item(OPT, r'fn peephole3_helper\(')
    push = 'PushInt' if op.endswith('Int') else 'PushFloat'
    head_rx = r'\(\s*Instr::%s\(a\),\s*Instr::%s\(b\),\s*Instr::%s\(Reg::Top, Reg::Top, Reg::Top\),\s*\)' % (push, push, op)
    head, guard, body, is_block = S.match_arm(fn, head_rx, ' ' * 20)
    if not is_block:
        raise S.SliceError("fold arm %s is not a block" % op)
    return head, guard, body


def vm_arm_facts(vmname):
    """From the VM arm text: (error conditions [(cond, kind)], stored expression) with the arm's
    own binders a, b."""
    arm = S.step_arm(vmname)
    body = arm['body']
    conds = []
    for m in re.finditer(r'if\s+([^{}]+?)\s*\{\s*self\.error\s*=\s*Some\(\s*self\s*\.make_error\(VmErrorKind::(\w+)', body):
        conds.append((m.group(1).strip(), m.group(2)))
    # `let Some(c) = EXPR else { self.error = ...K }`
    for m in re.finditer(r'let Some\(\w+\)\s*=\s*([^;{}]+?)\s*else\s*\{\s*self\.error\s*=\s*Some\(\s*self\s*\.make_error\(VmErrorKind::(\w+)', body):
        conds.append(("(%s).is_none()" % m.group(1).strip(), m.group(2)))
    nerr = len(re.findall(r'self\.error\s*=', body))
    if nerr != len(conds):
        raise S.SliceError("VM arm %s: %d error sites, %d recognised" % (vmname, nerr, len(conds)))
    sm = re.findall(r'self\.store_offset_or_top\(\s*dest\s*,\s*(.+?)\);', body, re.S)
    if len(sm) != 1:
        raise S.SliceError("VM arm %s: expected one store" % vmname)
    binds = re.findall(r'let (\w+) = self\.load_offset_or_top\((\w+)\)\.get_(\w+)\(self\);', body)
    return dict(conds=conds, value=sm[0].strip(), binds=binds, raw=arm['raw'])


def lifted_float_folds(a2v):
    """Rust text: for each float fold arm a function with the arm's real guard and body
    (free variables become parameters), plus vm_err_<Op> / vm_val_<Op> cut from the VM arm."""
    out = ["// ===== constant-fold arms lifted from peephole3_helper (real guard + real body) and the\n"
           "// ===== error condition / stored expression of the VM arm executing the same opcode ====="]
    meta = {}
    for op in FLOAT_FOLDS:
        head, guard, body = fold_arm(op)
        vm = vm_arm_facts(a2v[op]['vm'])
        g = guard if guard else 'true'
        out.append("#[allow(non_snake_case)]\nfn fold_%s(a: String, b: &String, ret: &mut Vec<Line>, lineno: usize, file_id: u32, func_id: u32) -> bool {\n"
                   "    if !(%s) { return false; }\n    {%s}\n}" % (op, g, body))
        cond = ' || '.join('(%s)' % c for c, _ in vm['conds']) or 'false'
        out.append("/// error condition of VM arm Instr::%s (vm.rs), binders as in the arm\n#[allow(non_snake_case)]\n"
                   "fn vm_err_%s(a: pf64, b: pf64) -> bool { %s }" % (a2v[op]['vm'], op, cond))
        out.append("/// value stored by VM arm Instr::%s (vm.rs)\n#[allow(non_snake_case)]\n"
                   "fn vm_val_%s(a: pf64, b: pf64) -> pf64 { %s }" % (a2v[op]['vm'], op, vm['value']))
        # the expression the fold evaluates, for the textual cross-check
        fm = re.search(r'let c = ([^;]+);', body)
        meta[op] = dict(guard=guard, fold_expr=fm.group(1).strip() if fm else None, vm_expr=vm['value'],
                        vm_conds=vm['conds'], sha=S.sha(head + (guard or '') + body), vm_sha=S.sha(vm['raw']), vm=a2v[op]['vm'])
    return '\n'.join(out) + '\n', meta


def float_fold_harness(op, value_check):
    h = ["/// C05.fold.%s.sound" % op,
         "#[kani::proof]\n#[allow(non_snake_case)]\nfn fold_%s_sound() {" % op,
         "    let a: pf64 = kani::any();\n    let b: pf64 = kani::any();",
         "    let mut ret: Vec<Line> = vec![];",
         "    let fired = fold_%s(String(a.to_bits()), &String(b.to_bits()), &mut ret, 1, 2, 3);" % op,
         "    if vm_err_%s(a, b) {" % op,
         "        assert!(!fired, \"the VM arm raises an error for these operands: the fold must not replace the instruction by a value\");",
         "    }",
         "    if fired {",
         "        assert!(ret.len() == 1, \"exactly one line appended\");",
         "        match &ret[0] {",
         "            Line::Instr { instr: Instr::PushFloat(c), .. } => {"]
    if value_check:
        h += ["                let v = vm_val_%s(a, b);" % op,
              "                let c = pf64::from_bits(c.0);",
              "                assert!(c.to_bits() == v.to_bits() || (c != c && v != v), \"folded value == value the VM arm stores\");"]
    else:
        h += ["                let _ = c; // value: same expression text as the VM arm (checked textually); CBMC cannot afford it"]
    h += ["            }",
          "            _ => assert!(false, \"a fold appends PushFloat\"),",
          "        }",
          "    } else {",
          "        assert!(ret.is_empty(), \"no fold => ret untouched\");",
          "    }",
          "    kani::cover!(fired, \"fold reachable\");",
          "    kani::cover!(b == 0.0, \"zero divisor reachable\");",
          "}"]
    return '\n'.join(h) + '\n'


def build(dirpath):
    """Scratch Kani crate: tok.rs (type substitution), the real assembly.rs types + `impl Reg`,
    and module `folds` = lifted float-fold arms of peephole3_helper + error condition / stored
    expression cut from the VM arms + harnesses."""
    enum, variants = gen.asm_variants()
    a2v = gen.asm_to_vm()
    asm = ["use crate::tok::String;", "pub type AbraInt = i64;",
           S.item(ASM, r'pub\(crate\) type Label = String;'), S.item(ASM, r'pub\(crate\) enum Line \{'), enum,
           S.item(ASM, r'pub enum Reg \{'), S.item(ASM, r'impl Reg \{')]
    if not re.search(r'pub type AbraInt = i64;', S.read(VM)):
        raise S.SliceError("vm.rs: `pub type AbraInt = i64;` not found")
    folds, fmeta = lifted_float_folds(a2v)
    harness = open(os.path.join(HERE, 'harness.rs')).read()
    fh = ''.join(float_fold_harness(op, op in ('AddFloat', 'SubFloat')) for op in FLOAT_FOLDS)
    fh += float_fold_harness('MulFloat', True).replace('fn fold_MulFloat_sound()', 'fn fold_MulFloat_value()').replace('C05.fold.MulFloat.sound', 'C05.fold.MulFloat.value (thorough tier)')
    # ---- DivFloatImm vs DivFloat: error conditions cut from the two VM arms
    var = vm_arm_facts('DivFloat')
    imm = vm_arm_facts('DivFloatImm')
    CONST = 'self.shared.float_constants[imm as usize]'
    norm = lambda e: re.sub(r'\s+', ' ', e.replace(CONST, 'b')).strip()
    imm_arm = S.step_arm('DivFloatImm')['body']
    # in the immediate arm `b` (if bound at all) must be the constant-table operand
    bm = re.findall(r'let b = ([^;]+);', imm_arm)
    if bm and norm(bm[0]) != 'b':
        raise S.SliceError("DivFloatImm arm: `b` is not the constant-table operand: %r" % bm)
    c_var = ' || '.join('(%s)' % c for c, _ in var['conds']) or 'false'
    c_imm = ' || '.join('(%s)' % norm(c) for c, _ in imm['conds']) or 'false'
    fh += '''/// C05.vm.DivFloatImm.same_error_as_DivFloat: conditions cut from the two VM arms
fn vm_err_DivFloat_var(a: pf64, b: pf64) -> bool { %s }
fn vm_err_DivFloat_imm(a: pf64, b: pf64) -> bool { %s }
#[kani::proof]
fn divfloatimm_same_error() {
    let a: pf64 = kani::any();
    let b: pf64 = kani::any();
    assert!(vm_err_DivFloat_var(a, b) == vm_err_DivFloat_imm(a, b), "literal divisor and variable divisor raise a runtime error for the same operands");
    kani::cover!(vm_err_DivFloat_var(a, b), "error case reachable");
    kani::cover!(!vm_err_DivFloat_var(a, b), "non-error case reachable");
}
''' % (c_var, c_imm)
    divf = dict(var_conds=[c for c, _ in var['conds']], imm_conds=[norm(c) for c, _ in imm['conds']],
                var_kinds=[k for _, k in var['conds']], imm_kinds=[k for _, k in imm['conds']],
                var_expr=norm(var['value']), imm_expr=norm(imm['value']), sha=S.sha(var['raw'] + imm['raw']))
    mod = ("// type substitution, see tok.rs\nuse crate::tok::{String, f64};\nuse crate::assembly::{Instr, Line, Reg, AbraInt};\n#[allow(non_camel_case_types)]\ntype pf64 = core::primitive::f64;\n"
           + folds + "\n#[cfg(kani)]\nmod u9h {\nuse super::*;\n" + harness + fh + "}\n")
    os.makedirs(os.path.join(dirpath, 'src'), exist_ok=True)
    lib = LIB
    for name, text in (('Cargo.toml', CARGO), ('src/lib.rs', lib), ('src/assembly.rs', '\n\n'.join(asm) + '\n'),
                       ('src/folds.rs', mod), ('src/tok.rs', open(os.path.join(HERE, 'tok.rs')).read())):
        with open(os.path.join(dirpath, name), 'w') as f:
            f.write(text)
    return dict(fold_meta=fmeta, divf=divf, sha=dict(enum=S.sha(enum), reg_impl=S.sha(S.item(ASM, r'impl Reg \{'))))
