// ===== U9 hand-written harnesses (appended inside module `optimize_bytecode`, after the
// ===== generated support; private items of the real file are visible) =====

type pf64 = core::primitive::f64;

// 15-bit register range of assembly.rs Reg::encode (mirror; tied to the real text by
// harness reg_offset_roundtrip below)
pub fn reg_encodable(r: &Reg) -> bool {
    match r {
        Reg::Top => true,
        Reg::Offset(n) => -(1i16 << 14) <= *n && *n <= (1i16 << 14) - 1,
    }
}
// mirror of the Verus spec fns enc_off / reg_top / reg_off (units/u9_opt/lemmas.rs, vmenv/spec.rs)
pub fn enc_off(x: i16) -> u16 {
    if x >= 0 { x as u16 } else { (x as i32 + 0x8000) as u16 }
}
pub fn reg_top(arg: u16) -> bool {
    arg >= 0x8000
}
pub fn reg_off(arg: u16) -> i32 {
    let low = (arg % 0x8000) as i32;
    if low >= 0x4000 { low - 0x8000 } else { low }
}

pub fn any_line() -> Line {
    if kani::any() {
        Line::Label(any_tok())
    } else {
        Line::Instr { instr: any_instr(), lineno: kani::any(), file_id: kani::any(), func_id: kani::any() }
    }
}
pub fn is_label(l: &Line) -> bool {
    matches!(l, Line::Label(_))
}
pub fn line_eq(a: &Line, b: &Line) -> bool {
    match (a, b) {
        (Line::Label(x), Line::Label(y)) => x == y,
        (
            Line::Instr { instr: i, lineno: l, file_id: f, func_id: g },
            Line::Instr { instr: i2, lineno: l2, file_id: f2, func_id: g2 },
        ) => instr_eq(i, i2) && l == l2 && f == f2 && g == g2,
        _ => false,
    }
}
fn sentinel() -> Line {
    Line::Label(String(0xdead_beef))
}
fn untouched(ret: &Vec<Line>) -> bool {
    ret.len() == 1 && line_eq(&ret[0], &sentinel())
}
fn opt_reg_eq(a: &Option<Reg>, b: &Option<Reg>) -> bool {
    match (a, b) {
        (None, None) => true,
        (Some(x), Some(y)) => reg_eq(x, y),
        _ => false,
    }
}
fn reg_is_top_at(i: &Instr, p: usize) -> bool {
    match reg_at(i, p) {
        Some(r) => is_top(&r),
        None => false,
    }
}
fn reg_is_offset_at(i: &Instr, p: usize) -> bool {
    match reg_at(i, p) {
        Some(r) => !is_top(&r),
        None => false,
    }
}
fn reg_is(i: &Instr, p: usize, r: &Reg) -> bool {
    match reg_at(i, p) {
        Some(x) => reg_eq(&x, r),
        None => false,
    }
}

// ------------------------------------------------------------------ Reg::encode
/// C05.enc.reg_offset.roundtrip: for every offset in the 15-bit range the REAL Reg::encode
/// returns enc_off(n), which is not a Top encoding and decodes (reg_off, = the VM's
/// `((arg << 1) as i16 >> 1)`) to n.  Top encodes to 0x8000.
#[kani::proof]
fn reg_offset_roundtrip() {
    let n: i16 = kani::any();
    kani::assume(reg_encodable(&Reg::Offset(n)));
    let e = Reg::Offset(n).encode();
    assert!(e == enc_off(n), "Reg::encode(Offset n) == enc_off(n)");
    assert!(!reg_top(e), "an offset never encodes as Top");
    assert!(reg_off(e) == n as i32, "decoding gives the offset back");
    assert!(((e << 1) as i16 >> 1) == n, "the VM's decoding expression gives the offset back");
    assert!(Reg::Top.encode() == 0x8000 && reg_top(Reg::Top.encode()));
    kani::cover!(n < 0, "negative offsets reachable");
    kani::cover!(n == 16383, "largest offset reachable");
}

// ------------------------------------------------------------------ replace_* frames
/// C05.opt.replace_dest.frame
#[kani::proof]
fn replace_dest_frame() {
    let i = any_instr();
    let r = any_reg();
    kani::assume(i.dest_is_top());
    let j = i.clone().replace_dest(r.clone()); // reaching the panic arm is a FAILURE
    let p = dest_pos(&i);
    assert!(p.is_some(), "dest_is_top accepted an opcode whose VM arm does not end with a store to a register operand");
    let p = p.unwrap();
    assert!(eq_except(&i, &j, p), "same opcode, every operand other than dest unchanged");
    assert!(reg_is(&j, p, &r), "dest == r");
    kani::cover!(true, "reachable");
    kani::cover!(opcode(&i) == OP_ArrayPop, "ArrayPop reachable");
}

/// C05.opt.replace_first_arg.frame
#[kani::proof]
fn replace_first_arg_frame() {
    let i = any_instr();
    let r = any_reg();
    kani::assume(i.first_arg_is_top_and_second_arg_is_offset_or_imm());
    let j = i.clone().replace_first_arg(r.clone());
    // "first argument" = the register fetched second by the VM arm (reg1 of a three-register
    // arm), or the only register of an immediate form
    let p = match src2_pos(&i) {
        Some(q) => Some(q),
        None => src1_pos(&i),
    };
    assert!(p.is_some(), "predicate accepted an opcode without a register source operand");
    let p = p.unwrap();
    assert!(eq_except(&i, &j, p), "same opcode, every other operand unchanged");
    assert!(reg_is(&j, p, &r), "first argument == r");
    kani::cover!(true, "reachable");
    kani::cover!(opcode(&i) == OP_SetIndex, "SetIndex reachable");
}

/// C05.opt.replace_second_arg.frame
#[kani::proof]
fn replace_second_arg_frame() {
    let i = any_instr();
    let r = any_reg();
    kani::assume(i.second_arg_is_top());
    let j = i.clone().replace_second_arg(r.clone());
    let p = src1_pos(&i);
    assert!(p.is_some(), "predicate accepted an opcode whose VM arm does not start by fetching a register operand");
    let p = p.unwrap();
    assert!(eq_except(&i, &j, p), "same opcode, every other operand unchanged");
    assert!(reg_is(&j, p, &r), "second argument == r");
    kani::cover!(true, "reachable");
    kani::cover!(opcode(&i) == OP_SetField, "SetField reachable");
}

// ------------------------------------------------------------------ predicates
/// C05.opt.predicates.sound.second_arg_is_top: the operand the predicate calls "second
/// argument" is the register the VM arm fetches FIRST (before any other stack access), and it
/// is Top.  That is the hypothesis of lemma F1 (LoadOffset(x); Op(.., Top) == Op(.., Offset x)).
#[kani::proof]
fn pred_second_arg_is_top_sound() {
    let i = any_instr();
    kani::assume(i.second_arg_is_top());
    let p = src1_pos(&i);
    assert!(p.is_some(), "VM arm of this opcode does not fetch a register operand before every other stack access");
    assert!(reg_is_top_at(&i, p.unwrap()), "that operand is Top");
    kani::cover!(true, "reachable");
}

/// C05.opt.predicates.sound.first_arg: under the rule ORDER of peephole2_helper (the
/// second-argument rule is tried first, so here !second_arg_is_top()), the operand called
/// "first argument" is Top and is either (a) the only register source of an immediate form
/// (fetched first: lemma F1u) or (b) the register fetched second while the register fetched
/// first is an Offset (lemma F2).
#[kani::proof]
fn pred_first_arg_sound() {
    let i = any_instr();
    kani::assume(i.first_arg_is_top_and_second_arg_is_offset_or_imm());
    kani::assume(!i.second_arg_is_top()); // guaranteed by match-arm order, checked by p2_rule_order
    match src2_pos(&i) {
        Some(q) => {
            let p1 = src1_pos(&i).unwrap();
            assert!(reg_is_offset_at(&i, p1), "the register fetched first is an Offset");
            assert!(reg_is_top_at(&i, q), "the register fetched second is Top");
        }
        None => {
            let p = src1_pos(&i);
            assert!(p.is_some(), "opcode has a register source operand");
            assert!(int_imm_pos(&i).is_some() || float_imm_pos(&i).is_some(), "single-source opcode accepted here is an immediate form");
            assert!(reg_is_top_at(&i, p.unwrap()), "its register is Top");
        }
    }
    kani::cover!(true, "reachable");
    kani::cover!(opcode(&i) == OP_SetIndex, "SetIndex reachable");
}

/// C05.opt.predicates.sound.dest_is_top: the operand called dest is written by the LAST
/// stack access of the VM arm and is Top (hypothesis of lemma L3).
#[kani::proof]
fn pred_dest_is_top_sound() {
    let i = any_instr();
    kani::assume(i.dest_is_top());
    let p = dest_pos(&i);
    assert!(p.is_some(), "VM arm does not end with a store to a register operand");
    assert!(reg_is_top_at(&i, p.unwrap()), "dest is Top");
    kani::cover!(true, "reachable");
}

// ------------------------------------------------------------------ Imm twins
fn twin_common(i: &Instr, j: &Instr, twin: Option<u16>) -> usize {
    assert!(twin.is_some(), "opcode accepted by can_replace_second_arg_with_imm_* has no Imm twin by name");
    assert!(opcode(j) == twin.unwrap(), "result is the opcode's OWN Imm twin (X -> XImm)");
    let p = src1_pos(i);
    assert!(p.is_some(), "opcode fetches a register operand first");
    let p = p.unwrap();
    assert!(arity(i) == arity(j), "same number of operands");
    // every operand other than the replaced one is carried over unchanged
    assert!(p == 0 || opt_reg_eq(&reg_at(i, 0), &reg_at(j, 0)), "operand 0 unchanged");
    assert!(p == 1 || opt_reg_eq(&reg_at(i, 1), &reg_at(j, 1)), "operand 1 unchanged");
    assert!(p == 2 || opt_reg_eq(&reg_at(i, 2), &reg_at(j, 2)), "operand 2 unchanged");
    // the twin's VM arm fetches the remaining register first and writes the same dest
    assert!(src1_pos(j) == src2_pos(i), "twin fetches the former first argument");
    assert!(src2_pos(j).is_none());
    assert!(dest_pos(j) == dest_pos(i), "twin writes the same dest operand");
    p
}

/// C05.opt.replace_second_arg_imm_int.twin
#[kani::proof]
fn replace_second_arg_imm_int_twin() {
    let i = any_instr();
    let k: AbraInt = kani::any();
    kani::assume(i.can_replace_second_arg_with_imm_int());
    let j = i.clone().replace_second_arg_imm_int(k);
    let p = twin_common(&i, &j, int_twin(opcode(&i)));
    assert!(int_imm_pos(&j) == Some(p), "the immediate takes the place of the register fetched first");
    assert!(int_at(&j, p) == Some(k), "imm == k");
    kani::cover!(true, "reachable");
    kani::cover!(opcode(&i) == OP_ArrayPush, "ArrayPush reachable");
}

/// C05.opt.replace_second_arg_imm_float.twin
#[kani::proof]
fn replace_second_arg_imm_float_twin() {
    let i = any_instr();
    let k = any_tok();
    kani::assume(i.can_replace_second_arg_with_imm_float());
    let j = i.clone().replace_second_arg_imm_float(k.clone());
    let p = twin_common(&i, &j, float_twin(opcode(&i)));
    assert!(float_imm_pos(&j) == Some(p), "the immediate takes the place of the register fetched first");
    assert!(tok_at(&j, p) == Some(k), "imm == k");
    kani::cover!(true, "reachable");
}

// ------------------------------------------------------------------ windows
fn window(n_max: usize) -> (Vec<Line>, usize, usize) {
    let mut lines = vec![any_line(), any_line(), any_line()];
    let n: usize = kani::any();
    kani::assume(1 <= n && n <= n_max);
    lines.truncate(n);
    let index: usize = kani::any();
    kani::assume(index < n);
    (lines, n, index)
}

/// C05.opt.peephole1.window: never touches `ret`; false on a Label; true exactly for PushNil(0)
/// (L5: pushing zero values is a no-op).
#[kani::proof]
fn p1_window() {
    let (lines, _n, index) = window(2);
    let mut ret = vec![sentinel()];
    let fired = peephole1_helper(&lines, index, &mut ret);
    assert!(untouched(&ret), "peephole1 never appends");
    match &lines[index] {
        Line::Label(_) => assert!(!fired, "Label => false"),
        Line::Instr { instr, .. } => {
            let is_pushnil0 = opcode(instr) == OP_PushNil && u16_at(instr, 0) == Some(0);
            assert!(fired == is_pushnil0, "true exactly for PushNil(0)");
        }
    }
    kani::cover!(fired, "deletion reachable");
    kani::cover!(!fired, "non-deletion reachable");
}

/// C05.opt.peephole2.window (blocked part): a Label in either slot, or no second slot => false, ret untouched.
#[kani::proof]
fn p2_window_blocked() {
    let (lines, n, index) = window(3);
    kani::assume(is_label(&lines[index]) || index + 1 >= n || is_label(&lines[index + 1]));
    // the PushNil(n)-underflow cannot be reached here: it needs two Instr slots
    let mut ret = vec![sentinel()];
    let fired = peephole2_helper(&lines, index, &mut ret);
    assert!(!fired, "blocked window => false");
    assert!(untouched(&ret), "blocked window => ret untouched");
    kani::cover!(index + 1 >= n, "short window reachable");
    kani::cover!(index + 1 < n && is_label(&lines[index + 1]), "label in second slot reachable");
}

/// The rewrite relation justified by the lemmas of units/u9_opt/lemmas.rs.  `out` is the single
/// line appended (None = pure deletion).  Stated over the VM-derived operand layout
/// (src1/src2/dest positions), NOT over the optimizer's own predicates.
fn justified2(i1: &Instr, i2: &Instr, out: &Option<Instr>) -> bool {
    let o1 = opcode(i1);
    let o2 = opcode(i2);
    match out {
        None => {
            // L5: PushX; Pop and Duplicate; Pop cancel.  L7: constant condition not taken.
            ((o1 == OP_PushBool || o1 == OP_PushFloat || o1 == OP_PushInt || o1 == OP_PushString || o1 == OP_Duplicate) && o2 == OP_Pop)
                || (o1 == OP_PushBool && bool_at(i1, 0) == Some(true) && o2 == OP_JumpIfFalse)
                || (o1 == OP_PushBool && bool_at(i1, 0) == Some(false) && o2 == OP_JumpIf)
        }
        Some(o) => {
            let oo = opcode(o);
            // L5: PushNil(n); Pop == PushNil(n-1), n >= 1
            if o1 == OP_PushNil && o2 == OP_Pop {
                let n = u16_at(i1, 0).unwrap();
                return n >= 1 && oo == OP_PushNil && u16_at(o, 0) == Some(n - 1);
            }
            // L6: Not(Top, Top); JumpIf(l) == JumpIfFalse(l)
            if o1 == OP_Not && o2 == OP_JumpIf {
                return reg_is_top_at(i1, 0) && reg_is_top_at(i1, 1) && oo == OP_JumpIfFalse && tok_at(o, 0) == tok_at(i2, 0);
            }
            // L7: PushBool(true); JumpIf(l) == Jump(l)
            if o1 == OP_PushBool && o2 == OP_JumpIf {
                return bool_at(i1, 0) == Some(true) && oo == OP_Jump && tok_at(o, 0) == tok_at(i2, 0);
            }
            // L7': PushBool(b); Not(Top, Top) == PushBool(!b)
            if o1 == OP_PushBool && o2 == OP_Not && reg_is_top_at(i2, 0) && reg_is_top_at(i2, 1) {
                return oo == OP_PushBool && bool_at(o, 0) == Some(!bool_at(i1, 0).unwrap());
            }
            // L8: PushInt(k); StoreOffset(n) == StoreOffsetImm(n, k)
            if o1 == OP_PushInt && o2 == OP_StoreOffset {
                return oo == OP_StoreOffsetImm && i16_at(o, 0) == i16_at(i2, 0) && int_at(o, 1) == int_at(i1, 0);
            }
            // F1 / F1u / F2: LoadOffset(x); Op(.., Top ..) == Op(.., Offset x ..)
            if o1 == OP_LoadOffset {
                let x = Reg::Offset(i16_at(i1, 0).unwrap());
                if let Some(p) = src1_pos(i2) {
                    if reg_is_top_at(i2, p) {
                        // the operand fetched first is Top: it must be the one replaced (F1)
                        return eq_except(i2, o, p) && reg_is(o, p, &x);
                    }
                    if let Some(q) = src2_pos(i2) {
                        // operand fetched first is an Offset, operand fetched second is Top (F2)
                        return reg_is_top_at(i2, q) && eq_except(i2, o, q) && reg_is(o, q, &x);
                    }
                }
                return false;
            }
            // L3: Op(Top, ..); StoreOffset(n) == Op(Offset n, ..)
            if o2 == OP_StoreOffset {
                if let Some(p) = dest_pos(i1) {
                    let d = Reg::Offset(i16_at(i2, 0).unwrap());
                    return reg_is_top_at(i1, p) && eq_except(i1, o, p) && reg_is(o, p, &d);
                }
                return false;
            }
            // L4: PushInt(k) / PushFloat(k); Op(.., Top) == OpImm(.., k)
            if o1 == OP_PushInt || o1 == OP_PushFloat {
                let twin = if o1 == OP_PushInt { int_twin(o2) } else { float_twin(o2) };
                if let (Some(t), Some(p)) = (twin, src1_pos(i2)) {
                    let imm_ok = if o1 == OP_PushInt {
                        int_imm_pos(o) == Some(p) && int_at(o, p) == int_at(i1, 0)
                    } else {
                        float_imm_pos(o) == Some(p) && tok_at(o, p) == tok_at(i1, 0)
                    };
                    return reg_is_top_at(i2, p)
                        && oo == t
                        && imm_ok
                        && arity(o) == arity(i2)
                        && (p == 0 || opt_reg_eq(&reg_at(i2, 0), &reg_at(o, 0)))
                        && (p == 1 || opt_reg_eq(&reg_at(i2, 1), &reg_at(o, 1)))
                        && (p == 2 || opt_reg_eq(&reg_at(i2, 2), &reg_at(o, 2)));
                }
                return false;
            }
            false
        }
    }
}

fn p2_setup() -> (Instr, Instr, usize, u32, u32, Vec<Line>) {
    let i1 = any_instr();
    let i2 = any_instr();
    let (l1, f1, g1): (usize, u32, u32) = (kani::any(), kani::any(), kani::any());
    let mut lines = vec![
        Line::Instr { instr: i1.clone(), lineno: l1, file_id: f1, func_id: g1 },
        Line::Instr { instr: i2.clone(), lineno: kani::any(), file_id: kani::any(), func_id: kani::any() },
        any_line(),
    ];
    if kani::any() {
        lines.truncate(2);
    }
    // ASSUMED PRECONDITION (recorded): the translator never emits PushNil(0); Pop
    // (`n - 1` on u16 underflows).  peephole1 deletes PushNil(0) but only after peephole2
    // has had its turn on the same index.
    kani::assume(!(opcode(&i1) == OP_PushNil && u16_at(&i1, 0) == Some(0) && opcode(&i2) == OP_Pop));
    (i1, i2, l1, f1, g1, lines)
}

/// C05.opt.peephole2.window (rule part): when the helper fires it appended at most one line,
/// carrying the first line's lineno/file_id/func_id, and (i1, i2) -> out is one of the
/// rewrites proved by lemmas L3..L8, F1, F1u, F2, F4.  When it does not fire ret is untouched.
#[kani::proof]
fn p2_window_rule() {
    let (i1, i2, l1, f1, g1, lines) = p2_setup();
    let mut ret = vec![sentinel()];
    let fired = peephole2_helper(&lines, 0, &mut ret);
    if !fired {
        assert!(untouched(&ret), "false => ret untouched");
    } else {
        assert!(ret.len() == 1 || ret.len() == 2, "at most one line appended");
        assert!(line_eq(&ret[0], &sentinel()), "earlier output untouched");
        let out = if ret.len() == 2 {
            match &ret[1] {
                Line::Label(_) => {
                    assert!(false, "a Label was appended");
                    None
                }
                Line::Instr { instr, lineno, file_id, func_id } => {
                    assert!(*lineno == l1 && *file_id == f1 && *func_id == g1, "appended line carries the FIRST line's lineno/file_id/func_id");
                    Some(instr.clone())
                }
            }
        } else {
            None
        };
        assert!(justified2(&i1, &i2, &out), "the rewrite is one of the proved rules");
    }
    kani::cover!(fired && ret.len() == 2, "replacement reachable");
    kani::cover!(fired && ret.len() == 1, "deletion reachable");
    kani::cover!(!fired, "no-rule reachable");
    kani::cover!(fired && opcode(&i1) == OP_LoadOffset && opcode(&i2) == OP_SetIndex, "SetIndex rule reachable");
}

/// C05.opt.peephole2.rule_order: LoadOffset(x); Op(.., Top, Top) -- both register sources Top --
/// must replace the operand fetched FIRST.  (Replacing the other one would swap the operands;
/// for SetIndex(Top, _) the first-argument predicate alone would allow it.)
#[kani::proof]
fn p2_rule_order() {
    let (i1, i2, _l1, _f1, _g1, lines) = p2_setup();
    kani::assume(opcode(&i1) == OP_LoadOffset);
    let (p, q) = (src1_pos(&i2), src2_pos(&i2));
    kani::assume(p.is_some() && q.is_some());
    let (p, q) = (p.unwrap(), q.unwrap());
    kani::assume(reg_is_top_at(&i2, p) && reg_is_top_at(&i2, q));
    let mut ret = vec![sentinel()];
    let fired = peephole2_helper(&lines, 0, &mut ret);
    if fired {
        assert!(ret.len() == 2);
        if let Line::Instr { instr, .. } = &ret[1] {
            assert!(reg_is_top_at(instr, q), "the operand fetched second is still Top");
            assert!(reg_is_offset_at(instr, p), "the operand fetched first was replaced");
        }
    }
    kani::cover!(fired && opcode(&i2) == OP_SetIndex, "SetIndex(Top, Top) reachable");
    kani::cover!(fired && opcode(&i2) == OP_AddInt, "AddInt(_, Top, Top) reachable");
}

/// C05.opt.peephole2.encodable: if every register operand of the window can be assembled
/// (Reg::encode does not panic) then so can every register operand of the rewritten line.
/// LoadOffset/StoreOffset carry a full i16, a register operand only 15 bits.
#[kani::proof]
fn p2_encodable() {
    let (i1, i2, _l1, _f1, _g1, lines) = p2_setup();
    let enc = |i: &Instr, p: usize| match reg_at(i, p) {
        Some(r) => reg_encodable(&r),
        None => true,
    };
    kani::assume(enc(&i1, 0) && enc(&i1, 1) && enc(&i1, 2) && enc(&i2, 0) && enc(&i2, 1) && enc(&i2, 2));
    let mut ret = vec![sentinel()];
    let fired = peephole2_helper(&lines, 0, &mut ret);
    if fired && ret.len() == 2 {
        if let Line::Instr { instr, .. } = &ret[1] {
            // the REAL encode: its panic ("out of 15-bit range") is the failure
            if let Some(r) = reg_at(instr, 0) {
                r.encode();
            }
            if let Some(r) = reg_at(instr, 1) {
                r.encode();
            }
            if let Some(r) = reg_at(instr, 2) {
                r.encode();
            }
        }
    }
    kani::cover!(fired && ret.len() == 2 && opcode(&i1) == OP_LoadOffset, "LoadOffset rule reachable");
}

/// C05.opt.peephole3.window (blocked part)
#[kani::proof]
fn p3_window_blocked() {
    let (lines, n, index) = window(3);
    kani::assume(
        is_label(&lines[index]) || index + 2 >= n || is_label(&lines[index + 1]) || is_label(&lines[index + 2]),
    );
    let mut ret = vec![sentinel()];
    let fired = peephole3_helper(&lines, index, &mut ret);
    assert!(!fired, "blocked window => false");
    assert!(untouched(&ret), "blocked window => ret untouched");
    kani::cover!(index + 2 >= n, "short window reachable");
    kani::cover!(n == 3 && index == 0 && is_label(&lines[2]), "label in third slot reachable");
}

fn all_top3(i: &Instr) -> bool {
    reg_is_top_at(i, 0) && reg_is_top_at(i, 1) && reg_is_top_at(i, 2)
}

/// C05.opt.peephole3.window (rule part): when it fires, exactly one line was appended, it
/// carries the first line's ids, and the window is PushInt; PushInt; Op(Top,Top,Top) -> PushInt
/// with Op an integer fold opcode, or the same with floats.  WHICH value is pushed, and that
/// nothing is folded when the VM arm would raise an error, is C05.fold.<Op>.sound.
#[kani::proof]
#[kani::unwind(6)]
fn p3_window_rule() {
    let i1 = any_instr();
    let i2 = any_instr();
    let i3 = any_instr();
    let (l1, f1, g1): (usize, u32, u32) = (kani::any(), kani::any(), kani::any());
    // value bound (structure does not depend on it; keeps CBMC away from 64-bit * / pow)
    if opcode(&i3) == OP_MulInt || opcode(&i3) == OP_DivInt || opcode(&i3) == OP_PowInt {
        if let Some(a) = int_at(&i1, 0) {
            kani::assume(-8 <= a && a <= 8);
        }
        if let Some(b) = int_at(&i2, 0) {
            kani::assume(-1 <= b && b <= 8);
        }
    }
    let lines = vec![
        Line::Instr { instr: i1.clone(), lineno: l1, file_id: f1, func_id: g1 },
        Line::Instr { instr: i2.clone(), lineno: kani::any(), file_id: kani::any(), func_id: kani::any() },
        Line::Instr { instr: i3.clone(), lineno: kani::any(), file_id: kani::any(), func_id: kani::any() },
    ];
    let mut ret = vec![sentinel()];
    let fired = peephole3_helper(&lines, 0, &mut ret);
    if !fired {
        assert!(untouched(&ret), "false => ret untouched");
    } else {
        assert!(ret.len() == 2, "exactly one line appended");
        assert!(line_eq(&ret[0], &sentinel()), "earlier output untouched");
        match &ret[1] {
            Line::Label(_) => assert!(false, "a Label was appended"),
            Line::Instr { instr, lineno, file_id, func_id } => {
                assert!(*lineno == l1 && *file_id == f1 && *func_id == g1, "appended line carries the FIRST line's ids");
                let o3 = opcode(&i3);
                let int_fold = opcode(&i1) == OP_PushInt
                    && opcode(&i2) == OP_PushInt
                    && (o3 == OP_AddInt || o3 == OP_SubInt || o3 == OP_MulInt || o3 == OP_DivInt || o3 == OP_PowInt)
                    && all_top3(&i3)
                    && opcode(instr) == OP_PushInt;
                let float_fold = opcode(&i1) == OP_PushFloat
                    && opcode(&i2) == OP_PushFloat
                    && (o3 == OP_AddFloat || o3 == OP_SubFloat || o3 == OP_MulFloat || o3 == OP_DivFloat || o3 == OP_PowFloat)
                    && all_top3(&i3)
                    && opcode(instr) == OP_PushFloat;
                assert!(int_fold || float_fold, "the window is a constant fold over (Top, Top, Top)");
            }
        }
    }
    kani::cover!(fired && opcode(&i3) == OP_AddInt, "int fold reachable");
    kani::cover!(fired && opcode(&i3) == OP_MulFloat, "float fold reachable");
    kani::cover!(!fired, "no-fold reachable");
}

/// C05.opt.pass.order: optimization_pass tries peephole3, then 2, then 1 at every index and a
/// line that no helper claims is copied unchanged (2-line programs; bounded).
#[kani::proof]
#[kani::unwind(4)]
fn pass_copies_unclaimed() {
    let (lines, n, _index) = window(2);
    let mut scratch = vec![];
    let claimed0 = peephole3_helper(&lines, 0, &mut scratch) || peephole2_helper_guarded(&lines, 0, &mut scratch) || peephole1_helper(&lines, 0, &mut scratch);
    kani::assume(!claimed0);
    kani::assume(n == 1 || !(peephole2_helper_guarded(&lines, 1, &mut scratch) || peephole1_helper(&lines, 1, &mut scratch)));
    let out = optimization_pass(lines.clone());
    assert!(out.len() == n, "nothing claimed => same length");
    assert!(line_eq(&out[0], &lines[0]));
    assert!(n == 1 || line_eq(&out[1], &lines[1]));
    kani::cover!(n == 2, "two-line program reachable");
}
fn peephole2_helper_guarded(lines: &[Line], index: usize, ret: &mut Vec<Line>) -> bool {
    if let Line::Instr { instr, .. } = &lines[index] {
        if index + 1 < lines.len() {
            if let Line::Instr { instr: i2, .. } = &lines[index + 1] {
                kani::assume(!(opcode(instr) == OP_PushNil && u16_at(instr, 0) == Some(0) && opcode(i2) == OP_Pop));
            }
        }
    }
    peephole2_helper(lines, index, ret)
}
