// ===== U9 hand-written Kani harnesses (module `folds` of the scratch crate) =====
// The optimizer's Instr algebra and window rewrites are verified by Verus (vopt.py): Kani
// pays ~7k SSA steps per `match` on the 113-variant enum even for a concrete discriminant
// (one symbolic Instr: 3 min / 6 GB), so only loop-free, match-free obligations live here.

// 15-bit register range of assembly.rs Reg::encode
pub fn reg_encodable(r: &Reg) -> bool {
    match r {
        Reg::Top => true,
        Reg::Offset(n) => -(1i16 << 14) <= *n && *n <= (1i16 << 14) - 1,
    }
}
// mirror of the Verus spec fns enc_off (units/u9_opt/lemmas.rs), reg_top / reg_off (vmenv/spec.rs)
pub fn enc_off(x: i16) -> u16 {
    if x >= 0 { x as u16 } else { (x as i32 + 0x8000) as u16 }
}
pub fn reg_top(arg: u16) -> bool {
    arg >= 0x8000
}
pub fn reg_off(arg: u16) -> i32 {
    let low = (arg % 0x8000) as i32;
    if low >= 0x4000 { low - 0x8000 } else { low }
}

/// C05.enc.reg_offset.roundtrip: for every offset in the 15-bit range the REAL Reg::encode
/// returns enc_off(n), which is not a Top encoding and decodes (spec reg_off, and the VM's own
/// expression `((arg << 1) as i16 >> 1)` of load_offset_or_top) to n.  Top encodes to 0x8000.
#[kani::proof]
fn reg_offset_roundtrip() {
    let n: i16 = kani::any();
    kani::assume(reg_encodable(&Reg::Offset(n)));
    let e = Reg::Offset(n).encode();
    assert!(e == enc_off(n), "Reg::encode(Offset n) == enc_off(n)");
    assert!(!reg_top(e), "an offset never encodes as Top");
    assert!(reg_off(e) == n as i32, "decoding gives the offset back");
    assert!(((e << 1) as i16 >> 1) == n, "the VM's decoding expression gives the offset back");
    assert!((e >> 15) == 0, "the VM's use_top flag is clear");
    assert!(Reg::Top.encode() == 0x8000 && reg_top(Reg::Top.encode()));
    kani::cover!(n < 0, "negative offsets reachable");
    kani::cover!(n == 16383, "largest offset reachable");
}
