// U9 / layer 1 of C05 for the one pair assigned to this unit: the VM arm of DivFloatImm
// (literal divisor, constant-table operand) must stop with the same runtime error as the VM
// arm of DivFloat (variable divisor) for the same operands.  Both arms are the real text of
// step() (lifted by units/vmk), run on the real stack helpers and value encoding.  Quotients
// are not compared (same expression text `a / b`; two symbolic f64 divisions are out of
// CBMC's reach): only whether the arm continues and which error it sets.
#[cfg(kani)]
mod u9_divf {
    use super::hs::*;
    use super::*;

    fn run_pair(a: f64, b: f64) -> (bool, u8, bool, u8) {
        let mut t1 = mk_thread_with(vec![Value::from(a), Value::from(b)], 0, vec![], vec![]);
        let c1 = t1.arm_DivFloat(TOP, TOP, TOP);
        let mut t2 = mk_thread_with(vec![Value::from(a)], 0, vec![], vec![b]);
        let c2 = t2.arm_DivFloatImm(TOP, TOP, 0);
        (c1, err_kind(&t1), c2, err_kind(&t2))
    }

    /// zero divisor (+0.0 or -0.0), any dividend
    #[kani::proof]
    fn divfloatimm_zero_divisor() {
        let a: f64 = kani::any();
        let b: f64 = kani::any();
        kani::assume(b == 0.0);
        let (c1, e1, c2, e2) = run_pair(a, b);
        assert!(c1 == c2, "literal and variable zero divisor: both arms stop or both continue");
        assert!(e1 == e2, "literal and variable zero divisor: same runtime error");
        kani::cover!(b.to_bits() != 0, "negative zero reachable");
        kani::cover!(true, "reachable");
    }

    /// non-zero divisor (including NaN, infinities, subnormals), any dividend
    #[kani::proof]
    fn divfloatimm_nonzero_divisor() {
        let a: f64 = kani::any();
        let b: f64 = kani::any();
        kani::assume(!(b == 0.0));
        let (c1, e1, c2, e2) = run_pair(a, b);
        assert!(c1 == c2, "both arms stop or both continue");
        assert!(e1 == e2, "same runtime error (none)");
        assert!(c1 && e1 == 0, "division by a non-zero divisor is not an error");
        kani::cover!(b != b, "NaN divisor reachable");
        kani::cover!(true, "reachable");
    }
}
