// U9 / layer 1 of C05 for the one pair assigned to this unit (thorough tier): the REAL VM arm of
// DivFloatImm (literal divisor, constant-table operand; lifted from step() by units/vmk and run on
// the real stack helpers and value encoding) stops with DivisionByZero for a zero divisor of either
// sign and any dividend -- which is what the DivFloat arm does for a variable divisor (its error
// condition `b == 0.0` / kind DivisionByZero is cut from the arm text and compared in
// units/u9_opt/__init__.py).  The non-zero case needs a fully symbolic f64 division (measured:
// > 5 min in CBMC) and is decided at the level of the two arms' error conditions instead (harness
// divfloatimm_same_error in the small crate).
#[cfg(kani)]
mod u9_divf {
    use super::hs::*;
    use super::*;

    #[kani::proof]
    fn divfloatimm_zero_divisor() {
        let a: f64 = kani::any();
        let b: f64 = kani::any();
        kani::assume(b == 0.0);
        let mut t = mk_thread_with(vec![Value::from(a)], 0, vec![], vec![b]);
        let cont = t.arm_DivFloatImm(TOP, TOP, 0);
        assert!(!cont, "zero literal divisor: the arm stops");
        assert!(err_kind(&t) == 4, "zero literal divisor: the error is DivisionByZero, as for a variable divisor");
        kani::cover!(b.to_bits() != 0, "negative zero reachable");
        kani::cover!(true, "reachable");
        core::mem::forget(t);
    }
}
