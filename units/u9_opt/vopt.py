"""U9 Verus file for the optimizer's code side: the REAL text of impl Instr {..},
peephole{1,2,3}_helper and optimization_pass (optimize_bytecode.rs), the real enums of
assembly.rs, contracts spliced between signature and body.

Rewrites applied to the real text (each counted, reported in evidence):
  R0   `pub` / `pub(crate)` dropped (single file)
  R1e  let-chain with else desugared to nested ifs (letchain.py)
  Rd   `#[derive(Debug, Clone)]` dropped from Instr / Reg / Line; Clone impls with contract `r == *self` added
  Rp   `panic!(..)` -> `vpanic()` (precondition false: reaching it is a verification failure)
  type substitution String / f64 (vtok.rs)
"""
import os
import re
import slicer as S
from . import gen, letchain

HERE = os.path.dirname(os.path.abspath(__file__))
ASM, VM, OPT = gen.ASM, gen.VM, gen.OPT
U1SPEC = os.path.join(os.path.dirname(HERE), 'u1_int', 'spec.rs')

HEADER = ("#![allow(unused_imports, dead_code, unused_variables, non_snake_case, unused_mut, unused_assignments, non_camel_case_types, unreachable_code)]\n"
          "use vstd::prelude::*;\nverus! {\npub type AbraInt = i64;\n")
EPILOGUE = "\n} // verus!\nfn main() {}\n"

CLONES = """
// ASSUMED: #[derive(Clone)] is a structural copy
impl Clone for Reg { #[verifier::external_body] fn clone(&self) -> (r: Self) ensures r == *self { unimplemented!() } }
impl Clone for Instr { #[verifier::external_body] fn clone(&self) -> (r: Self) ensures r == *self { unimplemented!() } }
impl Clone for Line { #[verifier::external_body] fn clone(&self) -> (r: Self) ensures r == *self { unimplemented!() } }
"""

PRED = {  # method -> reflected spec fn name
    'second_arg_is_top': 'sat_spec',
    'first_arg_is_top_and_second_arg_is_offset_or_imm': 'fat_spec',
    'dest_is_top': 'dit_spec',
    'can_replace_second_arg_with_imm_int': 'cri_spec',
    'can_replace_second_arg_with_imm_float': 'crf_spec',
}

# method -> (return binder type rewrite, contract text, obligation id, text for evidence)
METHOD_CONTRACTS = {
    'second_arg_is_top': (
        "        ensures r == sat_spec(*self), r ==> shape_F1(*self),\n",
        'C05.opt.predicates.sound.second_arg_is_top'),
    'first_arg_is_top_and_second_arg_is_offset_or_imm': (
        "        ensures r == fat_spec(*self),\n"
        "            // under the rule ORDER of peephole2_helper (second-argument rule tried first):\n"
        "            (r && !sat_spec(*self)) ==> (shape_F2(*self) || (src2_pos(*self) is None && shape_F1(*self) && imm_form(*self))),\n"
        "            r ==> (first_arg_pos(*self) is Some && is_top_at(*self, first_arg_pos(*self)->0)),\n",
        'C05.opt.predicates.sound.first_arg_is_top_and_second_arg_is_offset_or_imm'),
    'dest_is_top': (
        "        ensures r == dit_spec(*self), r ==> shape_D(*self),\n",
        'C05.opt.predicates.sound.dest_is_top'),
    'replace_first_arg': (
        "        requires fat_spec(self),\n        ensures r == with_reg(self, first_arg_pos(self)->0, r1),\n",
        'C05.opt.replace_first_arg.frame'),
    'replace_second_arg': (
        "        requires sat_spec(self),\n        ensures r == with_reg(self, src1_pos(self)->0, r2),\n",
        'C05.opt.replace_second_arg.frame'),
    'replace_dest': (
        "        requires dit_spec(self),\n        ensures r == with_reg(self, dest_pos(self)->0, dest),\n",
        'C05.opt.replace_dest.frame'),
    'is_push_imm_int': ("        ensures r == (*self is PushInt),\n", 'C05.opt.is_push_imm_int.post'),
    'is_push_imm_float': ("        ensures r == (*self is PushFloat),\n", 'C05.opt.is_push_imm_float.post'),
    'get_imm_int': ("        requires *self is PushInt,\n        ensures r == self->PushInt_0,\n", 'C05.opt.get_imm_int.post'),
    'get_imm_float': ("        requires *self is PushFloat,\n        ensures r == self->PushFloat_0,\n", 'C05.opt.get_imm_float.post'),
    'can_replace_second_arg_with_imm_int': (
        "        ensures r == cri_spec(*self), r ==> twin_int(*self, 0) is Some,\n",
        'C05.opt.can_replace_second_arg_with_imm_int.sound'),
    'can_replace_second_arg_with_imm_float': (
        "        ensures r == crf_spec(*self), r ==> twin_float(*self, String(0)) is Some,\n",
        'C05.opt.can_replace_second_arg_with_imm_float.sound'),
    'replace_second_arg_imm_int': (
        "        requires cri_spec(self),\n        ensures Some(r) == twin_int(self, imm),\n",
        'C05.opt.replace_second_arg_imm_int.twin'),
    'replace_second_arg_imm_float': (
        "        requires crf_spec(self),\n        ensures Some(r) == twin_float(self, imm),\n",
        'C05.opt.replace_second_arg_imm_float.twin'),
}

P1_CONTRACT = ("    requires index < lines.len(),\n"
               "    ensures final(_ret)@ == old(_ret)@,\n"
               "        fired == (lines@[index as int] is Instr && lines@[index as int]->instr == Instr::PushNil(0)),\n")
P2_CONTRACT = ("    requires index < lines.len(), no_pushnil0_pop(lines@, index as int),\n"
               "    ensures blocked2(lines@, index as int) ==> !fired,\n"
               "        !fired ==> final(ret)@ == old(ret)@,\n"
               "        fired ==> ({ let out = out_of(old(ret)@, final(ret)@);\n"
               "            &&& index + 1 < lines.len()\n"
               "            &&& appended(old(ret)@, final(ret)@, lines@[index as int], out)\n"
               "            &&& justified2(lines@[index as int]->instr, lines@[index + 1]->instr, out) }),\n")
P2_ENC_CONTRACT = ("    requires index < lines.len(), no_pushnil0_pop(lines@, index as int),\n"
                   "    ensures (fired && regs_encodable(lines@[index as int]->instr) && regs_encodable(lines@[index + 1]->instr)\n"
                   "             && out_of(old(ret)@, final(ret)@) is Some) ==> regs_encodable(out_of(old(ret)@, final(ret)@)->0),\n")
P3_CONTRACT = ("    requires index < lines.len(),\n"
               "        lines.len() < usize::MAX, // every Rust slice of a non-zero-sized type has len <= isize::MAX\n"
               "    ensures blocked3(lines@, index as int) ==> !fired,\n"
               "        !fired ==> final(ret)@ == old(ret)@,\n"
               "        fired ==> ({ let out = out_of(old(ret)@, final(ret)@);\n"
               "            &&& index + 2 < lines.len()\n"
               "            &&& out is Some\n"
               "            &&& appended(old(ret)@, final(ret)@, lines@[index as int], out)\n"
               "            &&& fold_shape(lines@[index as int]->instr, lines@[index + 1]->instr, lines@[index + 2]->instr, out->0) }),\n")
PASS_CONTRACT = ("    requires forall|k: int| 0 <= k < lines@.len() ==> no_pushnil0_pop(lines@, k),\n"
                 "        lines.len() < usize::MAX,\n")
PASS_INV = ("        invariant index <= lines.len(), lines.len() < usize::MAX, ret@.len() <= index, forall|k: int| 0 <= k < lines@.len() ==> no_pushnil0_pop(lines@, k),\n"
            "        decreases lines.len() - index,\n")

P2_IMM_CLAUSES = ("        // with the flag off no immediate form is INTRODUCED (an existing one may be carried through)\n"
                  "        (fired && !imm_int_ok && out_of(old(ret)@, final(ret)@) is Some && !is_int_imm(lines@[index as int]->instr) && !is_int_imm(lines@[index + 1]->instr))\n"
                  "            ==> !is_int_imm(out_of(old(ret)@, final(ret)@)->0),\n"
                  "        (fired && !imm_float_ok && out_of(old(ret)@, final(ret)@) is Some && !is_float_imm(lines@[index as int]->instr) && !is_float_imm(lines@[index + 1]->instr))\n"
                  "            ==> !is_float_imm(out_of(old(ret)@, final(ret)@)->0),\n")
PASS_ENSURES = "    ensures out@.len() <= lines@.len(),\n"
PASS_IMM_ENSURES = ("        (!imm_int_ok && no_int_imm(lines@)) ==> no_int_imm(out@),\n"
                    "        (!imm_float_ok && no_float_imm(lines@)) ==> no_float_imm(out@),\n")
PASS_IMM_INV = ("            (!imm_int_ok && no_int_imm(lines@)) ==> no_int_imm(ret@), (!imm_float_ok && no_float_imm(lines@)) ==> no_float_imm(ret@),\n")
OPT_CONTRACT = ("    requires\n"
                "        // the translator emits no immediate forms (checked textually: translate_bytecode.rs names them only in gather_constants)\n"
                "        no_int_imm(lines@), no_float_imm(lines@), lines.len() < usize::MAX,\n"
                "    ensures\n"
                "        // C05.opt.imm_index.fits: an immediate operand is a 16-bit constant-table index (instr_to_vminstr `as u16`).  Without immediate\n"
                "        // forms every constant is carried by a PushInt/PushFloat line, so with at most 2^16 such lines every index fits;\n"
                "        // with more, no immediate form may be introduced\n"
                "        count_pushint(lines@) > 65536 ==> no_int_imm(out@),\n"
                "        count_pushfloat(lines@) > 65536 ==> no_float_imm(out@),\n")
OPT_COUNT_INV = ("        invariant it.index@ <= lines@.len(), lines@.len() < usize::MAX, n_int <= it.index@, n_float <= it.index@,\n"
                 "            n_int == count_pushint(lines@.take(it.index@)), n_float == count_pushfloat(lines@.take(it.index@)),\n")
OPT_LOOP_INV = "        invariant ret@.len() <= len, len < usize::MAX,\n"
OPT_LOOP_IMM_INV = ("            !imm_int_ok ==> no_int_imm(ret@), !imm_float_ok ==> no_float_imm(ret@),\n"
                    "            imm_int_ok == (count_pushint(lines0) <= 65536), imm_float_ok == (count_pushfloat(lines0) <= 65536),\n")
OPT_LOOP_NOFLAG_INV = ("            count_pushint(lines0) > 65536 ==> no_int_imm(ret@), count_pushfloat(lines0) > 65536 ==> no_float_imm(ret@),\n")
OPT_ASSUME = ("        // ASSUMED PRECONDITION of peephole2_helper on every pass (see no_pushnil0_pop): no `PushNil(0); Pop` window\n"
              "        proof { assume(forall|k: int| 0 <= k < ret@.len() ==> no_pushnil0_pop(ret@, k)); }\n")

INT_FOLD_SPEC = {'AddInt': 'int_add(a as int, *b as int)', 'SubInt': 'int_sub(a as int, *b as int)',
                 'MulInt': 'int_mul(a as int, *b as int)', 'DivInt': 'int_div(a as int, *b as int)',
                 'PowInt': 'int_pow(a as int, *b as int)'}

# ghost text spliced at the start of a lifted fold (same lemmas U1 uses for the DivideInt arm)
FOLD_PROOFS = {'DivInt': 'proof { if *b != 0 { lemma_tdiv_fits(a, *b); lemma_rust_div_is_tdiv(a as int, *b as int); } }\n    '}

CPI = """
/// definitional reflection of checked_pow_int (for determinism of its two calls in the fold arm)
spec fn cpi_full(a: i64, b: i64) -> Option<i64> {
    if b > u32::MAX as i64 {
        if a == 0 || a == 1 { Some(a) } else if a == -1 { Some(if b % 2 == 0 { 1i64 } else { -1i64 }) } else { None }
    } else {
        let e = (b as u32) as nat;
        if fits(ipow(a as int, e)) { Some(ipow(a as int, e) as i64) } else { None::<i64> }
    }
}
"""


def u1_excerpt():
    s = open(U1SPEC).read()
    a = s.find("// ---- operand plumbing")
    b = s.find("// ---- lemmas connecting")
    if a < 0 or b < 0 or b < a:
        raise S.SliceError("u1_int/spec.rs: section markers not found")
    return s[:a] + s[b:]


def splice_method(impl, name, contract, ensures_false):
    rx = re.compile(r'^(    fn %s\(([^{}]*?)\)) -> (\w+) \{' % name, re.M | re.S)
    m = rx.search(impl)
    if not m or len(rx.findall(impl)) != 1:
        raise S.SliceError("impl Instr: signature of %s not found exactly once" % name)
    c = contract
    if ensures_false:
        c = re.sub(r'ensures.*', 'ensures false,\n', c, flags=re.S)
    return impl[:m.start()] + "%s -> (r: %s)\n%s    {" % (m.group(1), m.group(3), c) + impl[m.end():]


def splice_fn(text, name, contract, ret='fired', ensures_false=False):
    rx = re.compile(r'^((?:pub\(crate\) )?fn %s\((.*?)\)) -> (bool|Vec<Line>) \{' % name, re.M | re.S)
    m = rx.search(text)
    if not m:
        raise S.SliceError("signature of %s not found" % name)
    c = contract
    if ensures_false:
        c = (re.sub(r'ensures.*', '', c, flags=re.S) if 'ensures' in c else c) + "    ensures false,\n"
    return text[:m.start()] + "%s -> (%s: %s)\n%s{" % (m.group(1), ret, m.group(3), c) + text[m.end():]


# contracts for helper functions that exist only on repaired trees
OPTIONAL_FN_CONTRACTS = {
    'fits_reg_offset': ("    ensures r == (-16384 <= offset <= 16383),\n", 'C05.opt.fits_reg_offset.post'),
}


def splice_fn_any(text, name, contract, ensures_false):
    rx = re.compile(r'^((?:pub\(crate\) )?fn %s\((.*?)\)) -> (\w+) \{' % name, re.M | re.S)
    m = rx.search(text)
    if not m:
        raise S.SliceError("signature of %s not found" % name)
    c = "    ensures false,\n" if ensures_false else contract
    return text[:m.start()] + "%s -> (r: %s)\n%s{" % (m.group(1), m.group(3), c) + text[m.end():]


def build(canary=False):
    enum, variants = gen.asm_variants()
    lay = gen.layout()
    tw = gen.twins(variants)
    rew = dict(R1e=0, Rd=0, Rp=0)
    parts = [HEADER, open(os.path.join(HERE, 'vtok.rs')).read()]
    types = [S.item(ASM, r'pub\(crate\) type Label = String;'), S.item(ASM, r'pub\(crate\) enum Line \{'), enum,
             S.item(ASM, r'pub enum Reg \{')]
    tt = '\n\n'.join(types)
    tt, k = re.subn(r'^#\[derive\(Debug, Clone\)\]\n', '', tt, flags=re.M)
    if k != 3:
        raise S.SliceError("expected 3 derive(Debug, Clone) attributes on Line/Instr/Reg, found %d" % k)
    rew['Rd'] = k
    parts.append("// ---- real (assembly.rs), derive attributes dropped ----\n" + tt + "\n" + CLONES)
    parts.append("// ---- units/u1_int/spec.rs (integer specification of C15 + division lemmas) ----\n" + u1_excerpt())
    # checked_pow_int with U1's contract + determinism
    from units import u1_int
    h = u1_int.HELPER_FNS['checked_pow_int']
    sig, body = S.fn_parts(S.item(VM, h['rx']))
    sig = re.sub(r'-> Option<AbraInt>', '-> (r: Option<AbraInt>)', sig)
    parts.append(CPI + "// ---- real fn checked_pow_int (vm.rs) ----\n%s\n%s        r == cpi_full(a, b),\n{\n    %s%s}\n" % (
        sig, h['contract'], h['proof'], body))
    parts.append(gen.verus_support(variants, lay, tw))
    narrow_txt, narrow = gen.verus_narrow_imm(variants)
    parts.append(narrow_txt)
    rew['narrow_imm_opcodes'] = len(narrow)
    impl = S.item(OPT, r'impl Instr \{')
    for meth, sname in PRED.items():
        pats = gen.reflect_matches(impl, meth)
        parts.append("/// definitional reflection of impl Instr::%s (same pattern list)\nspec fn %s(i: Instr) -> bool {\n    match i {\n        %s => true,\n        _ => false,\n    }\n}\n" % (meth, sname, pats))
    parts.append(open(os.path.join(HERE, 'optspec.rs')).read())
    # impl Instr
    impl, k = re.subn(r'panic!\("[^"]*"\)', 'vpanic()', impl)
    rew['Rp'] = k
    for meth, (c, oid) in METHOD_CONTRACTS.items():
        impl = splice_method(impl, meth, c, canary)
    parts.append("// ---- real impl Instr (optimize_bytecode.rs), contracts spliced ----\n" + impl + "\n")
    # helpers
    p1 = splice_fn(S.item(OPT, r'fn peephole1_helper\('), 'peephole1_helper', P1_CONTRACT, ensures_false=canary)
    p2raw, c2 = letchain.desugar(S.item(OPT, r'fn peephole2_helper\('))
    p3raw, c3 = letchain.desugar(S.item(OPT, r'fn peephole3_helper\('))
    rew['R1e'] = c2['R1e'] + c3['R1e']
    if c2['R1'] or c3['R1'] or c2['R1e'] != 1 or c3['R1e'] != 1:
        raise S.SliceError("let-chain shape of peephole helpers changed: %r %r" % (c2, c3))
    patched_imm = bool(re.search(r'fn peephole2_helper\([^)]*\bimm_int_ok: bool[^)]*\bimm_float_ok: bool', p2raw, re.S))
    rew['imm_flags_present'] = patched_imm
    p2c = P2_CONTRACT + (P2_IMM_CLAUSES if patched_imm else '')
    p2 = splice_fn(p2raw, 'peephole2_helper', p2c, ensures_false=canary)
    p2e = splice_fn(p2raw.replace('fn peephole2_helper(', 'fn peephole2_helper__encodable(', 1), 'peephole2_helper__encodable',
                    P2_ENC_CONTRACT, ensures_false=canary)
    p3 = splice_fn(p3raw, 'peephole3_helper', P3_CONTRACT, ensures_false=canary)
    parts += ["// ---- real peephole helpers (optimize_bytecode.rs), R1e + contracts ----\n", p1, "\n", p2, "\n", p3, "\n",
              "// ---- second copy of peephole2_helper (same text) carrying only the encodability clause ----\n", p2e, "\n"]
    # every other top-level item of optimize_bytecode.rs (none at the pinned commit): consts verbatim,
    # fns with a contract from OPTIONAL_FN_CONTRACTS are verified, other fns become external_body
    # (body not verified, nothing assumed about the result) and are listed in the evidence
    src = S.read(OPT)
    known = [S.item(OPT, rx) for rx in (r'pub\(crate\) fn optimize\(', r'fn optimization_pass\(', r'fn peephole1_helper\(',
                                        r'fn peephole2_helper\(', r'fn peephole3_helper\(', r'impl Instr \{')]
    rest = src
    for t in known:
        if rest.count(t) != 1:
            raise S.SliceError("optimize_bytecode.rs: slice not found exactly once")
        rest = rest.replace(t, '')
    rest = re.sub(r'^use [^\n]*;\n', '', rest, flags=re.M)
    extra_items = []
    for m in re.finditer(r'^(?:pub(?:\(crate\))? )?(const|fn|struct|enum|type|static) (\w+)', rest, re.M):
        kind, name = m.group(1), m.group(2)
        txt = S.item(OPT, r'(?:pub(?:\(crate\))? )?%s %s\b' % (kind, name), with_attrs=False)
        if kind == 'fn' and name in OPTIONAL_FN_CONTRACTS:
            c, oid = OPTIONAL_FN_CONTRACTS[name]
            txt = splice_fn_any(txt, name, c, canary)
            extra_items.append((name, 'verified', oid))
        elif kind == 'fn':
            txt = "#[verifier::external_body]\n" + txt
            extra_items.append((name, 'external_body', None))
        else:
            extra_items.append((name, kind, None))
        parts += ["// ---- real (optimize_bytecode.rs), additional item ----\n", txt, "\n"]
    rew['extra_items'] = extra_items
    # optimization_pass
    op = S.item(OPT, r'fn optimization_pass\(')
    op = splice_fn(op, 'optimization_pass', PASS_CONTRACT + PASS_ENSURES + (PASS_IMM_ENSURES if patched_imm else ''), ret='out', ensures_false=canary)
    k = op.count("    while index < lines.len() {\n")
    if k != 1:
        raise S.SliceError("optimization_pass: loop head not found")
    op = op.replace("    while index < lines.len() {\n", "    while index < lines.len()\n" + PASS_INV.replace("        decreases", (PASS_IMM_INV if patched_imm else '') + "        decreases") + "    {\n")
    parts += ["// ---- real optimization_pass, loop invariant spliced ----\n", op, "\n"]
    # optimize: the 16-bit immediate index obligation
    oz = S.item(OPT, r'pub\(crate\) fn optimize\(')
    oz = splice_fn(oz, 'optimize', OPT_CONTRACT, ret='out', ensures_false=canary)
    first = "    let mut n_int = 0;\n" if patched_imm else "    let mut len = lines.len();\n"
    if oz.count(first) != 1 or oz.count("    loop {\n") != 1:
        raise S.SliceError("optimize: splice anchors not found")
    oz = oz.replace(first, "    let ghost lines0 = lines@;\n" + first)
    if patched_imm:
        ch = "    for line in &lines {\n"
        ce = "    let imm_int_ok = "
        if oz.count(ch) != 1 or oz.count(ce) != 1:
            raise S.SliceError("optimize: counting loop anchors not found")
        oz = oz.replace(ch, "    for line in it: &lines\n" + OPT_COUNT_INV + "    {\n        proof { lemma_count_step(lines@, it.index@); }\n")
        oz = oz.replace(ce, "    proof { assert(lines@.take(lines@.len() as int) == lines@); if lines@.len() > 0 { lemma_count_step(lines@, lines@.len() - 1); } }\n" + ce)
    oz = oz.replace("    loop {\n", "    loop\n" + OPT_LOOP_INV + (OPT_LOOP_IMM_INV if patched_imm else OPT_LOOP_NOFLAG_INV) + "        decreases len,\n    {\n" + OPT_ASSUME)
    parts += ["// ---- real optimize, contract + invariants + 1 assume spliced ----\n", oz, "\n"]
    rew['assume_splices'] = 1
    # lifted int folds
    from . import kcrate
    fold_meta = {}
    for opn in kcrate.INT_FOLDS:
        head, guard, body = kcrate.fold_arm(opn)
        post = "fold_post(fired, old(ret)@, final(ret)@, lineno, file_id, func_id, %s)" % INT_FOLD_SPEC[opn]
        if opn == 'PowInt':
            post = "*b >= 0 ==> " + post
        ens = "    ensures %s,\n" % ("false" if canary else post)
        proof = FOLD_PROOFS.get(opn, '')
        parts.append("// ---- fold arm lifted from peephole3_helper: real guard + real body ----\n"
                     "fn fold_%s(a: AbraInt, b: &AbraInt, ret: &mut Vec<Line>, lineno: usize, file_id: u32, func_id: u32) -> (fired: bool)\n%s{\n"
                     "    %sif !(%s) { return false; }\n    {%s}\n}\n" % (opn, ens, proof, guard or 'true', body))
        fold_meta[opn] = dict(guard=guard, sha=S.sha(head + (guard or '') + body), contract=ens)
    text = ''.join(p if p.endswith('\n') else p + '\n' for p in parts) + EPILOGUE
    from units import vmenv
    text, k = vmenv.strip_vis(text)
    rew['R0'] = k
    sha = dict(impl=S.sha(S.item(OPT, r'impl Instr \{')), p1=S.sha(S.item(OPT, r'fn peephole1_helper\(')),
               p2=S.sha(S.item(OPT, r'fn peephole2_helper\(')), p3=S.sha(S.item(OPT, r'fn peephole3_helper\(')),
               opass=S.sha(S.item(OPT, r'fn optimization_pass\(')), optimize=S.sha(S.item(OPT, r'pub\(crate\) fn optimize\(')), enum=S.sha(enum))
    return text, rew, fold_meta, sha
