"""Let-chain desugaring for Verus (which has no let-chains).

    if c1 && let P = E && c2 { A } else { B }
 => if c1 { if let P = E { if c2 { A } else { B } } else { B } } else { B }

R1  (DESIGN.md): no `else` -- nothing is duplicated.
R1e (this unit):  with `else` -- the else block B is duplicated once per conjunct.  B is
     executed at most once on every path (exactly when some conjunct fails, evaluated left to
     right, which is the let-chain semantics), so the rewrite preserves behaviour for any B.
Only `if` expressions whose condition contains a top-level `let` conjunct are touched.
Returns (text, dict(R1=n, R1e=m)).
"""
import re
import slicer as S


def _split_conj(cond):
    parts, depth, cur, i = [], 0, '', 0
    while i < len(cond):
        j = S._skip_noncode(cond, i)
        if j != i:
            cur += cond[i:j]
            i = j
            continue
        c = cond[i]
        if c in '([{':
            depth += 1
        elif c in ')]}':
            depth -= 1
        if depth == 0 and cond.startswith('&&', i):
            parts.append(cur.strip())
            cur = ''
            i += 2
            continue
        if depth == 0 and cond.startswith('||', i):
            raise S.SliceError("let-chain desugar: `||` at top level of a chained condition")
        cur += c
        i += 1
    parts.append(cur.strip())
    return parts


def desugar(text):
    counts = dict(R1=0, R1e=0)
    while True:
        hit = None
        for m in S._find_code(text, r'\bif\b'):
            # condition = up to the first `{` at depth 0 (struct patterns `Line::Instr { .. }`
            # contain braces: a `{` directly following a path/ident inside a `let` pattern is
            # part of the pattern, the block brace follows an expression)
            i = m.end()
            n = len(text)
            depth = 0
            in_let_pat = False
            brace = None
            while i < n:
                j = S._skip_noncode(text, i)
                if j != i:
                    i = j
                    continue
                c = text[i]
                if c in '([':
                    i = S.match_brace(text, i) + 1
                    continue
                if re.match(r'let\b', text[i:]) and (i == 0 or not (text[i - 1].isalnum() or text[i - 1] == '_')):
                    in_let_pat = True
                    i += 3
                    continue
                if c == '=' and in_let_pat and text[i + 1] != '=' and text[i - 1] not in '=!<>':
                    in_let_pat = False
                    i += 1
                    continue
                if c == '{':
                    if in_let_pat:
                        i = S.match_brace(text, i) + 1
                        continue
                    brace = i
                    break
                if c == ';':
                    break
                i += 1
            if brace is None:
                continue
            cond = text[m.end():brace]
            if not re.search(r'(^|&&)\s*let\b', cond):
                continue
            if len(_split_conj(cond)) < 2:
                continue  # plain `if let P = E {` (also the output of this rewrite)
            hit = (m.start(), brace, cond)
            break
        if not hit:
            return text, counts
        start, brace, cond = hit
        conj = _split_conj(cond)
        bend = S.match_brace(text, brace)
        body = text[brace:bend + 1]
        rest = text[bend + 1:]
        em = re.match(r'\s*else\s*(\{)', rest)
        els = None
        end = bend + 1
        if em:
            eb = bend + 1 + em.start(1)
            ee = S.match_brace(text, eb)
            els = text[eb:ee + 1]
            end = ee + 1
            if re.match(r'\s*else\s+if\b', rest):
                raise S.SliceError("let-chain desugar: `else if` after a chained condition")
        elif re.match(r'\s*else\b', rest):
            raise S.SliceError("let-chain desugar: `else if` after a chained condition")
        out = body
        for c in reversed(conj):
            out = "if %s %s" % (c, out) + ((" else %s" % els) if els else "")
            out = "{ %s }" % out
        out = out[2:-2]  # outermost has no extra braces
        text = text[:start] + out + text[end:]
        counts['R1e' if els else 'R1'] += 1
