// ---------------------------------------------------------------------------
// U9 hand-written specification of the peephole optimizer (Verus).  Stated over the
// VM-derived operand layout (src1_pos / src2_pos / dest_pos, generated from vm.rs), never
// over the optimizer's own predicate lists.
// ---------------------------------------------------------------------------
spec fn is_top_at(i: Instr, p: int) -> bool { reg_at(i, p) == Some(Reg::Top) }
spec fn is_off_at(i: Instr, p: int) -> bool { reg_at(i, p) is Some && reg_at(i, p)->0 is Offset }

/// F1: the register the VM arm fetches first (before every other stack access) is Top.
/// `LoadOffset(x); i`  ==  `with_reg(i, src1, Offset x)`   (lemma_F1 / lemma_F1u)
spec fn shape_F1(i: Instr) -> bool { src1_pos(i) is Some && is_top_at(i, src1_pos(i)->0) }
/// F2: the register fetched first is an Offset, the one fetched directly after it is Top.
/// `LoadOffset(x); i`  ==  `with_reg(i, src2, Offset x)`   (lemma_F2)
spec fn shape_F2(i: Instr) -> bool {
    src1_pos(i) is Some && src2_pos(i) is Some && is_off_at(i, src1_pos(i)->0) && is_top_at(i, src2_pos(i)->0)
}
/// L3: the last stack access of the VM arm is the store to dest, and dest is Top.
spec fn shape_D(i: Instr) -> bool { dest_pos(i) is Some && is_top_at(i, dest_pos(i)->0) }

/// position the optimizer calls "first argument": the register fetched second by a
/// two-source arm, the only register of a one-source (immediate) arm
spec fn first_arg_pos(i: Instr) -> Option<int> { if src2_pos(i) is Some { src2_pos(i) } else { src1_pos(i) } }

spec fn mk_line(i: Instr, l: usize, f: u32, g: u32) -> Line { Line::Instr { instr: i, lineno: l, file_id: f, func_id: g } }

/// The two-slot rewrites proved sound by units/u9_opt/lemmas.rs.  out = None: both lines deleted.
spec fn justified2(i1: Instr, i2: Instr, out: Option<Instr>) -> bool {
    match out {
        None => {
            // L5: PushX; Pop  and  Duplicate; Pop  cancel.  L7: constant condition, branch not taken.
            ||| ((i1 is PushBool || i1 is PushFloat || i1 is PushInt || i1 is PushString || i1 is Duplicate) && i2 is Pop)
            ||| (i1 == Instr::PushBool(true) && i2 is JumpIfFalse)
            ||| (i1 == Instr::PushBool(false) && i2 is JumpIf)
        }
        Some(o) => {
            // L5: PushNil(n); Pop == PushNil(n-1), n >= 1
            ||| (i1 is PushNil && i2 is Pop && i1->PushNil_0 >= 1 && o == Instr::PushNil((i1->PushNil_0 - 1) as u16))
            // L6: Not(Top, Top); JumpIf(l) == JumpIfFalse(l)
            ||| (i1 == Instr::Not(Reg::Top, Reg::Top) && i2 is JumpIf && o == Instr::JumpIfFalse(i2->JumpIf_0))
            // L7: PushBool(true); JumpIf(l) == Jump(l)
            ||| (i1 == Instr::PushBool(true) && i2 is JumpIf && o == Instr::Jump(i2->JumpIf_0))
            // L7': PushBool(b); Not(Top, Top) == PushBool(!b)
            ||| (i1 is PushBool && i2 == Instr::Not(Reg::Top, Reg::Top) && o == Instr::PushBool(!i1->PushBool_0))
            // L8: PushInt(k); StoreOffset(n) == StoreOffsetImm(n, k)
            ||| (i1 is PushInt && i2 is StoreOffset && o == Instr::StoreOffsetImm(i2->StoreOffset_0, i1->PushInt_0))
            // F1 (incl. F1u): the operand fetched first is Top: IT must be the one replaced
            ||| (i1 is LoadOffset && shape_F1(i2) && o == with_reg(i2, src1_pos(i2)->0, Reg::Offset(i1->LoadOffset_0)))
            // F2: operand fetched first is an Offset, the one fetched second is Top
            ||| (i1 is LoadOffset && shape_F2(i2) && o == with_reg(i2, src2_pos(i2)->0, Reg::Offset(i1->LoadOffset_0)))
            // L3: Op(Top, ..); StoreOffset(n) == Op(Offset n, ..)
            ||| (i2 is StoreOffset && shape_D(i1) && o == with_reg(i1, dest_pos(i1)->0, Reg::Offset(i2->StoreOffset_0)))
            // L4: PushInt(k) / PushFloat(k); Op(.., Top) == OpImm(.., k)
            ||| (i1 is PushInt && shape_F1(i2) && twin_int(i2, i1->PushInt_0) == Some(o))
            ||| (i1 is PushFloat && shape_F1(i2) && twin_float(i2, i1->PushFloat_0) == Some(o))
        }
    }
}

spec fn is_instr(l: Line) -> bool { l is Instr }
spec fn blocked2(lines: Seq<Line>, index: int) -> bool {
    !(lines[index] is Instr) || index + 1 >= lines.len() || !(lines[index + 1] is Instr)
}
spec fn blocked3(lines: Seq<Line>, index: int) -> bool {
    !(lines[index] is Instr) || index + 2 >= lines.len() || !(lines[index + 1] is Instr) || !(lines[index + 2] is Instr)
}
/// ASSUMED PRECONDITION (recorded): the translator never emits `PushNil(0); Pop`
/// (`n - 1` on a u16 would underflow).
spec fn no_pushnil0_pop(lines: Seq<Line>, index: int) -> bool {
    !(index + 1 < lines.len() && lines[index] is Instr && lines[index + 1] is Instr
      && lines[index]->instr == Instr::PushNil(0) && lines[index + 1]->instr is Pop)
}
/// what a helper may have done to `ret`: nothing, or appended one line carrying the ids of
/// lines[index]
spec fn appended(old_ret: Seq<Line>, new_ret: Seq<Line>, first: Line, out: Option<Instr>) -> bool {
    match out {
        None => new_ret == old_ret,
        Some(o) => new_ret == old_ret.push(mk_line(o, first->lineno, first->file_id, first->func_id)),
    }
}
spec fn out_of(old_ret: Seq<Line>, new_ret: Seq<Line>) -> Option<Instr> {
    if new_ret.len() == old_ret.len() + 1 && new_ret.last() is Instr { Some(new_ret.last()->instr) } else { None }
}

spec fn all_top3(i: Instr) -> bool { is_top_at(i, 0) && is_top_at(i, 1) && is_top_at(i, 2) }
/// the three-slot window is a constant fold: PushInt; PushInt; IntOp(Top,Top,Top) -> PushInt
/// (or the same with floats).  WHICH value: obligations C05.fold.<Op>.sound.
spec fn fold_shape(i1: Instr, i2: Instr, i3: Instr, o: Instr) -> bool {
    ||| (i1 is PushInt && i2 is PushInt && (i3 is AddInt || i3 is SubInt || i3 is MulInt || i3 is DivInt || i3 is PowInt)
         && all_top3(i3) && o is PushInt)
    ||| (i1 is PushFloat && i2 is PushFloat && (i3 is AddFloat || i3 is SubFloat || i3 is MulFloat || i3 is DivFloat || i3 is PowFloat)
         && all_top3(i3) && o is PushFloat)
}

// 15-bit register range of assembly.rs Reg::encode (tied to the real text by Kani harness
// reg_offset_roundtrip)
spec fn reg_encodable(r: Reg) -> bool {
    match r { Reg::Top => true, Reg::Offset(n) => -16384 <= n <= 16383 }
}
spec fn regs_encodable(i: Instr) -> bool {
    &&& (reg_at(i, 0) is Some ==> reg_encodable(reg_at(i, 0)->0))
    &&& (reg_at(i, 1) is Some ==> reg_encodable(reg_at(i, 1)->0))
    &&& (reg_at(i, 2) is Some ==> reg_encodable(reg_at(i, 2)->0))
}

/// fold contract: produces c  ==> the VM arm's specification gives Val(c);
///                the VM arm would raise an error ==> no fold
spec fn fold_post(fired: bool, old_ret: Seq<Line>, new_ret: Seq<Line>, l: usize, f: u32, g: u32, out: Out) -> bool {
    &&& (fired ==> out is Val && fits(out->Val_0)
            && new_ret == old_ret.push(mk_line(Instr::PushInt(out->Val_0 as i64), l, f, g)))
    &&& (!fired ==> new_ret == old_ret)
    &&& (!(out is Val) ==> !fired)
}

// ---- immediates index the constant tables with 16 bits (instr_to_vminstr: `.. as u16`) ----
spec fn no_int_imm(s: Seq<Line>) -> bool {
    forall|k: int| 0 <= k < s.len() && (#[trigger] s[k]) is Instr ==> !is_int_imm(s[k]->instr)
}
spec fn no_float_imm(s: Seq<Line>) -> bool {
    forall|k: int| 0 <= k < s.len() && (#[trigger] s[k]) is Instr ==> !is_float_imm(s[k]->instr)
}
/// number of PushInt (resp. PushFloat) lines: an upper bound on the number of distinct int
/// (float) constants of the program, as long as no immediate forms are present
spec fn count_pushint(s: Seq<Line>) -> nat
    decreases s.len(),
{
    if s.len() == 0 { 0 } else {
        count_pushint(s.drop_last()) + (if s.last() is Instr && s.last()->instr is PushInt { 1nat } else { 0nat })
    }
}
spec fn count_pushfloat(s: Seq<Line>) -> nat
    decreases s.len(),
{
    if s.len() == 0 { 0 } else {
        count_pushfloat(s.drop_last()) + (if s.last() is Instr && s.last()->instr is PushFloat { 1nat } else { 0nat })
    }
}
proof fn lemma_count_step(s: Seq<Line>, k: int)
    requires 0 <= k < s.len(),
    ensures
        count_pushint(s.take(k + 1)) == count_pushint(s.take(k)) + (if s[k] is Instr && s[k]->instr is PushInt { 1nat } else { 0nat }),
        count_pushfloat(s.take(k + 1)) == count_pushfloat(s.take(k)) + (if s[k] is Instr && s[k]->instr is PushFloat { 1nat } else { 0nat }),
        count_pushint(s.take(k)) <= k, count_pushfloat(s.take(k)) <= k,
    decreases k,
{
    assert(s.take(k + 1).drop_last() == s.take(k));
    assert(s.take(k + 1).last() == s[k]);
    if k > 0 {
        lemma_count_step(s, k - 1);
    }
}
