"""U9: the bytecode optimizer (optimize_bytecode.rs) -- code side and semantic side of C05.

Code side (Verus, unbounded, symbolic over all 113 opcodes and all operands): the REAL text
of `impl Instr {..}`, `peephole{1,2,3}_helper`, `optimization_pass` with contracts spliced in
(vopt.py); int constant-fold arms lifted from peephole3_helper against the C15 integer
specification.  Semantic side (Verus): window-rewrite lemmas over the VM stack vocabulary
(lemmas.rs).  Kani (bit-precise, loop-free): Reg::encode round trip, float constant-fold arms
lifted from peephole3_helper against the error condition / stored expression cut from the VM
arm, DivFloatImm vs DivFloat error condition.

Why not Kani for the Instr algebra: measured -- CBMC pays ~7k SSA steps per `match` on the
113-variant enum even with a concrete discriminant (one concrete two-line window: 23 s; one
symbolic Instr: 3 min and 6 GB).
"""
import concurrent.futures as cf
import os
import re
import subprocess
import time

import slicer as S
import engine as E
from units import vmenv
from . import gen, kcrate, vopt

HERE = os.path.dirname(os.path.abspath(__file__))
UNIT = "U9-opt"
OPTF = 'abra_core/src/optimize_bytecode.rs'

LEMMA_IDS = {
    'lemma_enc_off': 'C05.lemma.enc_off', 'lemma_fetch2_is_arm_contract': 'C05.lemma.fetch_is_arm_contract',
    'lemma_F1': 'C05.lemma.L1', 'lemma_F1u': 'C05.lemma.L1u', 'lemma_F2': 'C05.lemma.L2',
    'lemma_F2_needs_order': 'C05.lemma.L2.order', 'lemma_L3': 'C05.lemma.L3', 'lemma_F4': 'C05.lemma.L4',
    'lemma_L5_push_pop': 'C05.lemma.L5.push_pop', 'lemma_L5_dup_pop': 'C05.lemma.L5.dup_pop',
    'lemma_L5_pushnil_pop': 'C05.lemma.L5.pushnil_pop', 'lemma_L5_pushnil0': 'C05.lemma.L5.pushnil0',
    'lemma_L6': 'C05.lemma.L6', 'lemma_L7': 'C05.lemma.L7', 'lemma_L7_flip': 'C05.lemma.L7.flip', 'lemma_L8': 'C05.lemma.L8',
}

HELPER_OBS = {  # verus fn name -> (obligation id, function description, contract text)
    'peephole1_helper': ('C05.opt.peephole1.window', vopt.P1_CONTRACT),
    'peephole2_helper': ('C05.opt.peephole2.window', vopt.P2_CONTRACT),
    'peephole3_helper': ('C05.opt.peephole3.window', vopt.P3_CONTRACT),
    'peephole2_helper__encodable': ('C05.opt.peephole2.encodable', vopt.P2_ENC_CONTRACT),
    'optimization_pass': ('C05.opt.pass.order', vopt.PASS_CONTRACT + vopt.PASS_INV),
    'optimize': ('C05.opt.imm_index.fits', vopt.OPT_CONTRACT),
}


def check_translator_emits_no_imm():
    """Precondition of `optimize` (no_int_imm / no_float_imm of its input): translate_bytecode.rs names
    immediate opcodes only inside gather_constants."""
    T = 'abra_core/src/translate_bytecode.rs'
    src = S.read(T)
    rest = src.replace(S.item(T, r'fn gather_constants\('), '')
    hits = re.findall(r'Instr::\w*Imm\b', rest)
    if hits:
        raise S.SliceError("translate_bytecode.rs emits immediate forms outside gather_constants: %r" % hits[:3])


# --------------------------------------------------------------------------- Kani (one build, sequential harnesses)

def run_kani_seq(crate_dir, harnesses, timeout_each=300, playback=False, extra=()):
    """One `cargo kani` invocation (one compilation), harnesses verified sequentially.
    Returns {harness: dict(status, failed, time_s, cover, raw, playback)}.  Checks of class NaN
    ("NaN on addition" ...) are NOT failures here: producing a NaN is defined behaviour of the
    language; Kani's NaN-generation check is not part of any obligation."""
    cmd = ["cargo", "kani", "-Z", "function-contracts", "-Z", "stubbing", "-Z", "unstable-options",
           "--harness-timeout", "%ds" % timeout_each, "--exact", "--output-format", "regular"] + list(extra)
    if playback:
        cmd += ["-Z", "concrete-playback", "--concrete-playback=print"]
    for h in harnesses:
        cmd += ["--harness", h]
    env = E.kani_env()
    env["CARGO_TARGET_DIR"] = os.path.join(crate_dir, "target")
    total = 90 + (timeout_each + 20) * len(harnesses)
    p = subprocess.run(["timeout", str(total)] + cmd, capture_output=True, text=True, cwd=crate_dir, env=env)
    raw = p.stdout + "\n" + p.stderr
    out = {}
    secs = re.split(r'\nChecking harness ([\w:]+)\.\.\.\n', raw)
    # secs = [preamble, name1, body1, name2, body2, ...]
    bodies = {secs[i]: secs[i + 1] for i in range(1, len(secs) - 1, 2)}
    for h in harnesses:
        b = bodies.get(h)
        if b is None:
            out[h] = dict(status=E.UNDECIDED, failed=[], time_s=0.0, cover=[], raw=raw[-3000:], playback=None)
            continue
        failed, cover = [], []
        for m in re.finditer(r'Check \d+: ([^\n]+)\n\s*- Status: (\w+)\n\s*- Description: "([^\n]*)"\n(?:\s*- Location: ([^\n]+))?', b):
            name, st, desc, loc = m.group(1), m.group(2), m.group(3), m.group(4) or ""
            if ".cover." in name:
                cover.append((desc, st))
            elif st == "FAILURE" and ".NaN." not in name:
                failed.append("%s @ %s" % (desc.strip('"'), loc.strip()))
        tm = re.search(r'Verification Time: ([0-9.]+)s', b)
        t = float(tm.group(1)) if tm else 0.0
        if "CBMC timed out" in b or "VERIFICATION:-" not in b:
            st = E.UNDECIDED
        elif failed and all(("unwinding assertion" in f) or ("not currently supported" in f) for f in failed):
            st = E.UNDECIDED
        elif failed:
            st = E.FAILED
        else:
            st = E.DISCHARGED
        out[h] = dict(status=st, failed=failed, time_s=t, cover=cover, raw=b[-3000:],
                      playback=E.parse_playback(b) if playback else None)
    return out, " ".join(cmd[:12]) + " --harness <h> ..."


# --------------------------------------------------------------------------- Verus helpers

def _verus(sc, name, text):
    path = sc.file(name, text)
    res = E.run_verus(path)
    lines = E.fn_line_ranges(text)
    errs = {}
    for e in res['errors']:
        fn = lines[e['line'] - 1] if e['line'] and e['line'] <= len(lines) else None
        errs.setdefault(fn, []).append(e['block'])
    byname = {}
    for k, v in res['functions'].items():
        byname[k.split("::")[-1]] = v
    return res, errs, byname


def _status(fn, byname, errs, canary_byname):
    f = byname.get(fn)
    if not f:
        return E.UNDECIDED, "function not reported by verus", 0.0, None
    detail = "\n".join(errs.get(fn, []))
    if f['success']:
        st = E.DISCHARGED
        c = canary_byname.get(fn + '__canary')
        if c is None or c['success']:
            st, detail = E.UNDECIDED, "vacuity canary: function verifies `ensures false` (contradictory precondition) or was not checked"
    else:
        st = E.UNDECIDED if ("rlimit" in detail.lower() and "postcondition" not in detail and "precondition" not in detail
                             and "assertion" not in detail and "overflow" not in detail) else E.FAILED
    return st, detail, f['time_s'], f['rlimit']


def canary_transform(text, names, keep_verified=()):
    """Vacuity canary that keeps callee contracts intact: every function in `names` becomes
    `#[verifier::external_body]` (contract kept, body not checked) and gets a copy
    `<name>__canary` with the same requires/body and `ensures false`.  Every copy must FAIL."""
    for name in names:
        ms = list(re.finditer(r'^( *)((?:proof |pub )*fn %s\()' % re.escape(name), text, re.M))
        if len(ms) != 1:
            raise E.Undecided("canary: fn %s found %d times" % (name, len(ms)))
        m = ms[0]
        ind = m.group(1)
        hb = re.compile(r'\n%s\{\n' % ind).search(text, m.end())
        if not hb:
            raise E.Undecided("canary: body of %s not found" % name)
        open_idx = hb.start() + 1 + len(ind)
        close = S.match_brace(text, open_idx)
        header = text[m.start():hb.start() + 1]
        body = text[open_idx:close + 1]
        h2 = header.replace('fn %s(' % name, 'fn %s__canary(' % name, 1)
        if re.search(r'^\s*ensures\b', h2, re.M):
            h2 = re.sub(r'(^\s*)ensures\b.*\Z', r'\1ensures false,\n', h2, flags=re.S | re.M)
        else:
            h2 = h2 + ind + "    ensures false,\n"
        copy = h2 + ind + body
        # functions in keep_verified stay fully verified (needed when the body uses Verus for-loop ghost
        # iterators, which do not exist in an external_body)
        attr = "" if name in keep_verified else ind + "#[verifier::external_body]\n"
        text = text[:m.start()] + attr + text[m.start():close + 1] + "\n" + copy + text[close + 1:]
    return text


def lemma_text():
    return open(os.path.join(HERE, 'lemmas.rs')).read()


def build_lemma_file(sc, canary=False):
    u1 = os.path.join(os.path.dirname(HERE), 'u1_int', 'spec.rs')
    text = vmenv.prelude([u1])
    text += lemma_text() + vmenv.EPILOGUE
    text, k = vmenv.strip_vis(text)
    if canary:
        text = canary_transform(text, list(LEMMA_IDS))
    return text


# --------------------------------------------------------------------------- run

def _run_core(tier="quick"):
    sc = E.Scratch("u9")
    obs = []
    try:
        t0 = time.time()
        opt_text, rew, int_fold_meta, sha = vopt.build()
        contract_fns = list(vopt.METHOD_CONTRACTS) + list(HELPER_OBS) + ['fold_' + op for op in kcrate.INT_FOLDS] + \
            [n for n, kind, oid in rew.get('extra_items', []) if oid]
        can_text = canary_transform(opt_text, contract_fns, keep_verified=('optimize',))
        check_translator_emits_no_imm()
        lem_text = build_lemma_file(sc)
        lemc_text = build_lemma_file(sc, canary=True)
        kdir = os.path.join(sc.path, "u9k")
        kinfo = kcrate.build(kdir)
        fmeta = kinfo['fold_meta']
        kh = ['folds::u9h::reg_offset_roundtrip', 'folds::u9h::divfloatimm_same_error'] + \
             ['folds::u9h::fold_%s_sound' % op for op in kcrate.FLOAT_FOLDS]
        if tier == "thorough":
            kh.append('folds::u9h::fold_MulFloat_value')

        def job_verus(name, text):
            return _verus(sc, name, text)

        with cf.ThreadPoolExecutor(max_workers=3) as ex:
            f_opt = ex.submit(job_verus, "u9_opt.rs", opt_text)
            f_kani = ex.submit(run_kani_seq, kdir, kh, 300)
            f_lem = ex.submit(job_verus, "u9_lemmas.rs", lem_text)
            res_lem, errs_lem, by_lem = f_lem.result()
            f_lemc = ex.submit(job_verus, "u9_lemmas_canary.rs", lemc_text)
            res_opt, errs_opt, by_opt = f_opt.result()
            f_can = ex.submit(job_verus, "u9_opt_canary.rs", can_text)
            _, _, by_lemc = f_lemc.result()
            _, _, by_can = f_can.result()
            kres, kcmd = f_kani.result()

        # ---- impl Instr methods
        for meth, (c, oid) in vopt.METHOD_CONTRACTS.items():
            st, detail, t, rl = _status(meth, by_opt, errs_opt, by_can)
            obs.append(E.Obligation(oid, ["C05"], UNIT, "Instr::" + meth, "verus/z3", st, detail, t, OPTF, sha['impl'], None, c, rlimit=rl))
        # ---- helpers
        for fn, (oid, c) in HELPER_OBS.items():
            st, detail, t, rl = _status(fn, by_opt, errs_opt, by_can)
            key = {'peephole1_helper': 'p1', 'peephole2_helper': 'p2', 'peephole3_helper': 'p3',
                   'peephole2_helper__encodable': 'p2', 'optimization_pass': 'opass', 'optimize': 'optimize'}[fn]
            obs.append(E.Obligation(oid, ["C05"], UNIT, fn.split('__')[0], "verus/z3", st, detail, t, OPTF, sha[key], None, c, rlimit=rl))
        for name, kind, oid in rew.get('extra_items', []):
            if oid:
                st, detail, t, rl = _status(name, by_opt, errs_opt, by_can)
                obs.append(E.Obligation(oid, ["C05"], UNIT, name, "verus/z3", st, detail, t, OPTF, "", None,
                                        vopt.OPTIONAL_FN_CONTRACTS[name][0], rlimit=rl))
        # ---- int folds + checked_pow_int
        for op, m in int_fold_meta.items():
            st, detail, t, rl = _status('fold_' + op, by_opt, errs_opt, by_can)
            obs.append(E.Obligation("C05.fold.%s.sound" % op, ["C05", "C15"], UNIT, "peephole3_helper fold arm " + op, "verus/z3",
                                    st, detail, t, OPTF, m['sha'], None, "guard: %s\n%s" % (m['guard'], m['contract']), rlimit=rl))
        f = by_opt.get('checked_pow_int')
        obs.append(E.Obligation("C05.fold.checked_pow_int.post", ["C05"], UNIT, "checked_pow_int", "verus/z3",
                                E.UNDECIDED if not f else (E.DISCHARGED if f['success'] else E.FAILED),
                                "\n".join(errs_opt.get('checked_pow_int', [])), f['time_s'] if f else 0, "abra_core/src/vm.rs", "", None,
                                "U1 contract (b >= 0 ==> exact power or None) + r == cpi_full(a, b) (determinism)"))
        # ---- lemmas
        for fn, oid in LEMMA_IDS.items():
            st, detail, t, rl = _status(fn, by_lem, errs_lem, by_lemc)
            obs.append(E.Obligation(oid, ["C05"], UNIT, fn, "verus/z3", st, detail, t, "verif/units/u9_opt/lemmas.rs", "", None, "", rlimit=rl))
        missing = [fn for fn in re.findall(r'proof fn (\w+)', lemma_text()) if fn not in LEMMA_IDS]
        if missing:
            raise E.Undecided("lemmas.rs has proof fns without an obligation id: %r" % missing)
        # ---- Kani
        def kob(h, oid, props, fn, text, file=OPTF, sha_=""):
            r = kres[h]
            st, detail = r['status'], "\n".join(r['failed'][:6])
            if st == E.DISCHARGED and not any(s == "SATISFIED" for _, s in r['cover']):
                st, detail = E.UNDECIDED, "vacuity guard: no cover statement satisfied"
            if st != E.DISCHARGED and not detail:
                detail = r['raw'][-1500:]
            obs.append(E.Obligation(oid, props, UNIT, fn, "kani/cbmc", st, detail, r['time_s'], file, sha_, None, text))
        kob('folds::u9h::reg_offset_roundtrip', 'C05.enc.reg_offset.roundtrip', ["C05"], "Reg::encode",
            "harness reg_offset_roundtrip: for every i16 n in [-16384, 16383]: Reg::Offset(n).encode() == enc_off(n), not Top, decodes to n "
            "(spec reg_off and the VM's `((arg << 1) as i16 >> 1)`)", 'abra_core/src/assembly.rs', kinfo['sha']['reg_impl'])
        kob('folds::u9h::divfloatimm_same_error', 'C05.vm.DivFloatImm.same_error_as_DivFloat', ["C05", "C16"],
            "VmGreenThread::step arms Instr::DivFloat / Instr::DivFloatImm",
            "for all f64 a, b: error condition of the DivFloatImm arm == error condition of the DivFloat arm (conditions cut from the arm texts: %r vs %r); "
            "error kinds %r vs %r; stored expressions %r vs %r" % (
                kinfo['divf']['var_conds'], kinfo['divf']['imm_conds'], kinfo['divf']['var_kinds'], kinfo['divf']['imm_kinds'],
                kinfo['divf']['var_expr'], kinfo['divf']['imm_expr']), 'abra_core/src/vm.rs', kinfo['divf']['sha'])
        if kinfo['divf']['var_kinds'] != kinfo['divf']['imm_kinds'] and obs[-1].status == E.DISCHARGED:
            obs[-1].status, obs[-1].detail = E.FAILED, "error kinds differ: %r vs %r" % (kinfo['divf']['var_kinds'], kinfo['divf']['imm_kinds'])
        for op in kcrate.FLOAT_FOLDS:
            m = fmeta[op]
            text = ("harness fold_%s_sound: a, b = any f64 bit patterns; fold arm (real guard %r, real body) on (PushFloat a, PushFloat b); "
                    "VM arm Instr::%s raises when %r ==> no fold; fold appends exactly one PushFloat%s" % (
                        op, m['guard'], m['vm'], m['vm_conds'],
                        "; folded value bit-equal to the VM arm's stored expression" if op in ('AddFloat', 'SubFloat') else
                        "; value: fold evaluates `%s`, VM arm stores `%s` (same text, not re-checked by CBMC)" % (m['fold_expr'], m['vm_expr'])))
            kob('folds::u9h::fold_%s_sound' % op, "C05.fold.%s.sound" % op, ["C05", "C16"], "peephole3_helper fold arm " + op, text, OPTF, m['sha'])
            if m['fold_expr'] != m['vm_expr'] and obs[-1].status == E.DISCHARGED and op not in ('AddFloat', 'SubFloat'):
                obs[-1].status, obs[-1].detail = E.UNDECIDED, "fold evaluates `%s` but the VM arm stores `%s`: value equivalence not decided" % (m['fold_expr'], m['vm_expr'])
        if tier == "thorough":
            kob('folds::u9h::fold_MulFloat_value', "C05.fold.MulFloat.value", ["C05", "C16"], "peephole3_helper fold arm MulFloat",
                "folded product bit-equal to the VM arm's stored expression, all f64 bit patterns", OPTF, fmeta['MulFloat']['sha'])
            obs += run_divf_arm()
        canary_ok = [fn for fn, v in by_can.items() if fn.endswith('__canary') and not v['success']]
        info = dict(
            assumptions=vmenv.ASSUMED + [
                "U9: TYPE SUBSTITUTION String -> opaque token, f64 (inside optimize_bytecode.rs) -> wrapper (units/u9_opt/vtok.rs, tok.rs): the optimizer only moves/clones labels and string literals",
                "U9: std f64::to_string / str::parse::<f64> is an exact round trip and parse succeeds on every float spelling the lexer produces (float folds go through text)",
                "U9/verus: #[derive(Clone)] on Instr/Reg/Line is a structural copy (Clone impls with contract r == *self)",
                "U9/verus: float arithmetic is uninterpreted on the Verus side (fadd/fsub/fmul/fdiv/fpow); bit-precise float obligations are the Kani harnesses",
                "U9: `optimize`: the same precondition is ASSUMED (explicit `assume`, 1 splice) for the input of every pass of the fixed-point loop; its contract only decides C05.opt.imm_index.fits (no immediate form is introduced when the program has more than 2^16 PushInt / PushFloat lines); that at most 2^16 such lines imply at most 2^16 distinct constants is counting, not verified",
                "U9: ASSUMED PRECONDITION of peephole2_helper: the window is not `PushNil(0); Pop` (`n - 1` on u16 would underflow). The translator emits PushNil(0) only at function entry and PushNil(1) only before ConstructVariant/ArrayPush/ChannelWrite; no occurrence in any pre-optimization dump of the repository's .abra programs; translator code, not decided",
                "U9 lemma L2: an Offset operand addresses a slot that exists before the preceding LoadOffset pushed its copy (translator allocates locals with PushNil at function entry); translator code, not decided",
                "U9 lemmas: semantics of LoadOffset/StoreOffset/StoreOffsetImm/Push*/Pop/Duplicate/Not/JumpIf/JumpIfFalse transcribed from their vm.rs arms (contracts of unit U4)",
                "U9: every Rust slice has len < usize::MAX (precondition of peephole3_helper / optimization_pass for `index + 2`)",
                "U9/kani: checks of class NaN (Kani's NaN-generation check) are ignored: NaN is a value of the language",
                "U9: operand layout (src1/src2/dest) is derived textually from the order of load_offset_or_top / store_offset_or_top calls at brace depth 0 of each VM arm and the operand order of instr_to_vminstr",
            ],
            trusted_base=["verus 0.2026.09.13 + z3", "kani 0.68 + cbmc 6.11", "tools/slicer.py", "units/u9_opt/gen.py (layout + spec-function generator)",
                          "rewrite rules R0, R1e (let-chain with else), Rd (derive dropped), Rp (panic! -> vpanic requires false)",
                          "units/u1_int/spec.rs (integer specification + division lemmas, re-verified here)"],
            checker_cmds=[res_opt['cmd'].replace(sc.path, "$SCRATCH"), res_lem['cmd'].replace(sc.path, "$SCRATCH"), kcmd],
            notes=dict(rewrites=rew, verus_opt_wall_s=round(res_opt['wall_s'], 1), verus_lemmas_wall_s=round(res_lem['wall_s'], 1),
                       canary_failed_functions=len(canary_ok), opcodes=len(gen.asm_variants()[1]),
                       kani_covers={h: kres[h]['cover'] for h in kh}, wall_s=round(time.time() - t0, 1),
                       not_covered="that `optimize` composes the passes correctly beyond C05.opt.imm_index.fits (each pass is a sequence of the local rewrites proved here), and the translator-side preconditions listed under assumptions"),
        )
        return obs, info
    finally:
        sc.cleanup()


def run_divf_arm():
    """thorough tier: the REAL lifted DivFloatImm / DivFloat arms on the real stack helpers with a
    zero divisor (b == +0.0 or -0.0, any dividend)."""
    from units import vmk
    sc = E.Scratch("u9d")
    try:
        kf = kcrate.vm_arm_facts('DivFloat')
        if [k for _, k in kf['conds']] != ['DivisionByZero'] or [c for c, _ in kf['conds']] != ['b == 0.0']:
            raise S.SliceError("DivFloat arm: error condition is no longer `b == 0.0` -> DivisionByZero: %r" % kf['conds'])
        info = vmk.build(sc.path, arms=['DivFloatImm'], harness_src=open(os.path.join(HERE, 'divf_twin.rs')).read())
        res, _ = run_kani_seq(sc.path, ['vm::u9_divf::divfloatimm_zero_divisor'], 600)
        r = res['vm::u9_divf::divfloatimm_zero_divisor']
        st, detail = r['status'], "\n".join(r['failed'][:6]) or r['raw'][-800:]
        if st == E.DISCHARGED and not any(s == "SATISFIED" for _, s in r['cover']):
            st, detail = E.UNDECIDED, "vacuity guard"
        return [E.Obligation('C05.vm.DivFloatImm.zero_divisor', ["C05", "C16"], UNIT, "VmGreenThread::step arm Instr::DivFloatImm", "kani/cbmc",
                             st, detail if st != E.DISCHARGED else "", r['time_s'], 'abra_core/src/vm.rs', info['arm_sha'].get('DivFloatImm', ''), None,
                             "harness divfloatimm_zero_divisor: b == 0.0 (either sign), any a: lifted real arm stops with DivisionByZero")]
    finally:
        sc.cleanup()


# --------------------------------------------------------------------------- replay

def _fmt_float(x):
    import math
    if math.isnan(x) or math.isinf(x):
        return "1.0"
    s = repr(abs(x))
    if 'e' in s or 'E' in s:
        return "1.0"
    if '.' not in s:
        s += ".0"
    return s


def big_locals_program(n=16400):
    """More than 2^14 locals, each used once as an arithmetic operand."""
    lines = ["let v%d = 1" % i for i in range(n)]
    lines.append("var s = 0")
    lines += ["s = s + v%d" % i for i in range(n)]
    lines.append("println(s)")
    return "\n".join(lines) + "\n", str(n)


def many_constants_program():
    """More than 2^16 distinct integer constants, then a literal operand whose table index is >= 2^16."""
    src = ("fn id(n: int) = n\n"
           "let a = [" + ", ".join(str(i) for i in range(1, 40001)) + "]\n"
           "let b = [" + ", ".join(str(i) for i in range(40001, 80001)) + "]\n"
           "let x = id(5)\nprintln(x + 70000)\nprintln(x + id(70000))\n")
    return src, "70005\n70005\n"


def replay(ob):
    import abra_cli
    info = {}
    if ob.id in ("C05.fold.DivFloat.sound", "C05.vm.DivFloatImm.same_error_as_DivFloat", "C05.vm.DivFloatImm.zero_divisor"):
        a = 1.0
        sc = E.Scratch("u9r")
        try:
            if ob.id == "C05.fold.DivFloat.sound":
                kinfo = kcrate.build(sc.path)
                res, _ = run_kani_seq(sc.path, ['folds::u9h::fold_DivFloat_sound'], 300, playback=True)
                pb = res['folds::u9h::fold_DivFloat_sound'].get('playback')
                if pb and len(pb) >= 2:
                    import struct
                    a = struct.unpack('<d', bytes(pb[0]))[0]
                    b = struct.unpack('<d', bytes(pb[1]))[0]
                    info['counterexample'] = dict(a=a, b=b)
                    ob.cex = info['counterexample']
        finally:
            sc.cleanup()
        al = _fmt_float(a)
        if ob.id == "C05.fold.DivFloat.sound":
            lit = "println(%s / 0.0)\n" % al
        else:
            lit = "fn id(x: float) = x\nlet x = id(%s)\nprintln(x / 0.0)\n" % al
        var = "fn id(x: float) = x\nlet z = id(0.0)\nprintln(%s / z)\n" % al
        o1, e1, rc1 = abra_cli.run_program(lit)
        o2, e2, rc2 = abra_cli.run_program(var)
        c1 = 'divzero' if 'division by zero' in (o1 + e1) else o1.strip()
        c2 = 'divzero' if 'division by zero' in (o2 + e2) else o2.strip()
        info.update(program_literal=lit, output_literal=(o1 + e1)[:400], program_variable=var, output_variable=(o2 + e2)[:400],
                    class_literal=c1, class_variable=c2)
        return (True if c1 != c2 else None), info
    if ob.id == "C05.opt.imm_index.fits":
        prog, want = many_constants_program()
        o, e, rc = abra_cli.run_program(prog, timeout=300)
        info.update(program="generated: two array literals holding the integers 1..80000 (more than 2^16 distinct int constants), "
                            "then `let x = id(5)`, `println(x + 70000)` (literal operand) and `println(x + id(70000))` (same value through a call)",
                    expected_output=want, real_output=(o + e)[:300], exit_code=rc)
        return (True if o != want else None), info
    if ob.id == "C05.opt.peephole2.encodable":
        prog, want = big_locals_program()
        o, e, rc = abra_cli.run_program(prog, timeout=300)
        info.update(program="generated: %d `let vI = 1` + `s = s + vI` for every I + println(s)" % 16400,
                    expected_output=want, real_output=(o + e)[:600], exit_code=rc)
        bad = ('out of 15-bit range' in (o + e)) or (o.strip() != want)
        return (True if bad else None), info
    return None, dict(note="no replay generator for this obligation")


# --------------------------------------------------------------------------- bounded stand-in
def _standin():
    from units import clidiff
    bad, n = clidiff.differential()
    return E.Obligation("C05.cli.operand_forms.sampled", ["C05"], UNIT, "optimizer + immediate opcodes on the real CLI", "bounded: differential run",
                        E.FAILED if bad else E.DISCHARGED, ("operand forms disagree on the real CLI: %r" % (bad,)) if bad else "", 0,
                        OPTF, "", "%d expression instances x 3 operand forms (literal/literal = constant folder, variable/literal = immediate opcode, variable/variable)" % n,
                        "runs ONLY when some optimizer function could not be verified on this tree (outside the verifier's reach): every arithmetic/comparison "
                        "operator with operands as literals and as variables must give the same value or the same runtime error")


def _standin_onoff():
    """Second bounded stand-in: the corpus of units/optdiff.py on the CLI built from the tree under check and on a copy with the one
    call `st.lines = optimize(st.lines);` disabled; C05 requires identical output, result and runtime error."""
    import time as _t
    from units import optdiff
    t0 = _t.time()
    bad, n = optdiff.differential()
    if n == 0:
        st, detail = E.UNDECIDED, "the copy with the optimizer disabled could not be built"
    elif bad:
        st, detail = E.FAILED, "optimized and unoptimized runs disagree: %r" % (bad,)
    else:
        st, detail = E.DISCHARGED, ""
    return E.Obligation("C05.cli.optimizer_on_off.sampled", ["C05", "C01"], UNIT, "optimize (all passes) via the real CLI", "bounded: run on the real CLI",
                        st, detail[:1500], _t.time() - t0, OPTF, "", "%d programs (e2e test programs, every binary operator inside an enclosing construct, discarded "
                        "trapping expressions, control-flow shapes) run with the optimizer on and off" % n,
                        "runs ONLY when some optimizer function could not be verified on this tree (outside the verifier's reach): every corpus program prints "
                        "the same output and stops with the same error with and without optimization")


def run(tier="quick"):
    """_run_core, plus: when a function of the optimizer is outside the verifier's reach on this tree
    (UNDECIDED), two bounded differential runs on the real CLI stand in (labelled bounded)."""
    try:
        obs, info = _run_core(tier)
    except (E.Undecided, S.SliceError) as ex:
        ob, ob2 = _standin(), _standin_onoff()
        if ob.status == E.FAILED or ob2.status == E.FAILED:
            u = E.Obligation("C05.opt.unit", ["C05"], UNIT, "optimize_bytecode.rs", "verus/z3", E.UNDECIDED, str(ex)[:1500], 0, OPTF, "", None, "")
            return [u, ob, ob2], dict(assumptions=[], trusted_base=[], checker_cmds=[], notes=dict(undecided=str(ex)[:500]))
        raise
    if any(o.status == E.UNDECIDED for o in obs):
        obs.append(_standin())
        obs.append(_standin_onoff())
    # the optimizer's obligations also serve C01 (a wrong rewrite desynchronises the stack / mistypes an operand)
    # and, for the constant folds and the 3-line window they live in, C15 / C16 (literal operands behave like variables)
    for o in obs:
        if o.id.startswith(("C05.opt.", "C05.cli.")) and "C01" not in o.props:
            o.props.append("C01")
        # every operator instruction (int, float, string, comparison) is rewritten by the same passes (operand fusion, dest
        # replacement, immediate forms): a wrong rewrite breaks the operator's own property as well
        if o.id.startswith("C05.opt."):
            for extra in ("C15", "C16", "C17", "C24"):
                if extra not in o.props:
                    o.props.append(extra)
        if (o.id.startswith("C05.fold.") or o.id in ("C05.opt.peephole3.window", "C05.cli.operand_forms.sampled")):
            for extra in ("C15", "C16"):
                if extra not in o.props:
                    o.props.append(extra)
    return obs, info


_core_replay = globals().get('replay')


def replay(ob):
    if ob.id == "C05.cli.optimizer_on_off.sampled":
        return (True if ob.status == E.FAILED else None), dict(note="the obligation itself is a run on the real CLI; the disagreeing program is in verifier_output")
    if ob.id == "C05.cli.operand_forms.sampled" or _core_replay is None:
        from units import clidiff
        bad, n = clidiff.differential()
        if bad:
            ob.cex = dict(expression=bad['expression'])
            return True, bad
        return None, dict(note="no disagreement among %d instances" % n)
    ok, info = _core_replay(ob)
    if ok is None:
        from units import clidiff, optdiff
        bad, n = clidiff.differential()
        if bad:
            ob.cex = dict(expression=bad['expression'])
            info = dict(info or {}, cli_differential=bad)
            return True, info
        bad, n = optdiff.differential()
        if bad:
            ob.cex = dict(program=bad['program'])
            info = dict(info or {}, optimizer_on_vs_off=bad)
            return True, info
        info = dict(info or {}, note="no disagreement: operand-form differential and %d programs optimized vs unoptimized" % n)
    return ok, info
