//! TYPE SUBSTITUTION (stated in evidence): inside the scratch crate the names `String`
//! and `f64` that occur in assembly.rs / optimize_bytecode.rs resolve to these types.
//!
//! * `String` (payload of PushFloat/PushString/PushAddr/Jump*/Call/SpawnTask/XFloatImm and
//!   of `Line::Label`) becomes an opaque 64-bit token.  The optimizer only moves, clones
//!   and (for float literals) parses these payloads; it never inspects a label or a
//!   string literal.  For a float literal the token is the bit pattern of the f64 that the
//!   spelling denotes.
//! * `f64` inside optimize_bytecode.rs becomes a wrapper over the primitive f64 whose
//!   arithmetic IS the primitive arithmetic; `parse::<f64>()` / `to_string()` are the
//!   identity on the denoted value.  ASSUMPTION: std's `f64::to_string` followed by
//!   `str::parse::<f64>` is an exact round trip (and parse succeeds on every spelling the
//!   lexer produces, so `.unwrap()` does not panic).  CBMC cannot execute dec2flt/fmt.
#![allow(non_camel_case_types)]

type pf64 = core::primitive::f64;

#[derive(Debug, Clone, Copy, PartialEq, Eq)]
pub struct String(pub u64);

#[derive(Debug, Clone, Copy)]
pub struct f64(pub pf64);

pub trait FromTok: Sized {
    fn from_tok(t: &String) -> Self;
}
impl FromTok for f64 {
    fn from_tok(t: &String) -> Self {
        f64(pf64::from_bits(t.0))
    }
}
impl String {
    pub fn parse<F: FromTok>(&self) -> Result<F, ()> {
        Ok(F::from_tok(self))
    }
}
impl f64 {
    pub fn to_string(&self) -> String {
        String(self.0.to_bits())
    }
    pub fn powf(self, o: f64) -> f64 {
        // value not inspected by any obligation (CBMC has no exact powf); only that a fold happens
        f64(kani_powf(self.0, o.0))
    }
}
#[cfg(kani)]
fn kani_powf(_a: pf64, _b: pf64) -> pf64 {
    kani::any()
}
#[cfg(not(kani))]
fn kani_powf(a: pf64, b: pf64) -> pf64 {
    a.powf(b)
}
impl core::ops::Add for f64 {
    type Output = f64;
    fn add(self, o: f64) -> f64 {
        f64(self.0 + o.0)
    }
}
impl core::ops::Sub for f64 {
    type Output = f64;
    fn sub(self, o: f64) -> f64 {
        f64(self.0 - o.0)
    }
}
impl core::ops::Mul for f64 {
    type Output = f64;
    fn mul(self, o: f64) -> f64 {
        f64(self.0 * o.0)
    }
}
impl core::ops::Div for f64 {
    type Output = f64;
    fn div(self, o: f64) -> f64 {
        f64(self.0 / o.0)
    }
}
impl PartialEq<pf64> for f64 {
    fn eq(&self, o: &pf64) -> bool {
        self.0 == *o
    }
}
impl PartialEq for f64 {
    fn eq(&self, o: &f64) -> bool {
        self.0 == o.0
    }
}
