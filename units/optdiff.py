"""Replay for optimizer obligations: run a corpus of programs on the real CLI built from the tree under
check and on a copy of the same tree in which the ONE call `st.lines = optimize(st.lines);` of
translate_bytecode.rs is disabled; C05 requires identical output, result and runtime error."""
import os
import re
import shutil
import subprocess
import tempfile
import abra_cli

REPO = os.environ.get("ABRA_REPO", "/repo")


def corpus():
    progs = []
    p = os.path.join(REPO, "abra_core/tests/integration/e2e_bytecode.rs")
    if os.path.exists(p):
        src = open(p, encoding="utf-8").read()
        for m in re.finditer(r'r#"(.*?)"#', src, re.S):
            t = m.group(1)
            if "use " not in t and "host " not in t and len(t) < 4000:
                progs.append(t)
    # generated family: every binary operator with local operands inside an enclosing construct
    ops_f = ["+", "-", "*", "/", "<", "<=", ">", ">=", "==", "!="]
    ops_i = ops_f + ["%", "^"]
    for ty, ops, (a, b, x) in (("float", ops_f, ("2.5", "1.5", "9.0")), ("int", ops_i, ("7", "3", "9"))):
        for op in ops:
            progs.append("fn g(x: %s, a: %s, b: %s) {\n  let arr = []\n  arr.push(a %s b)\n  let t = (x, a %s b)\n  println(arr)\n  println(t)\n  println(h(x, a %s b))\n}\n"
                         "fn h(x: %s, y) = (x, y)\ng(%s, %s, %s)\ng(%s, %s, %s)\n" % (ty, ty, ty, op, op, op, ty, x, a, b, x, b, a))
            progs.append("fn g(a: %s, b: %s) {\n  var s = a\n  let c = a %s b\n  let d = b %s a\n  println(c)\n  println(d)\n  let u = [a %s b, b %s a]\n  println(u)\n}\ng(%s, %s)\n" % (ty, ty, op, op, op, op, a, b))
    # discarded results of operations that can stop the program: the runtime error must survive optimization
    for ty, ops, z, big in (("int", ["/", "%", "*", "+", "-", "^"], "0", "9223372036854775807"), ("float", ["/"], "0.0", "1.0")):
        for op in ops:
            for rhs in ("b", z, big):
                progs.append("fn g(a: %s, b: %s) {\n  println(\"start\")\n  a %s %s\n  println(\"after stmt\")\n  let _ = a %s %s\n  println(\"after let\")\n}\ng(%s, %s)\n"
                             % (ty, ty, op, rhs, op, rhs, big, z))
    progs += CONTROL_FLOW
    # string operators whose result goes straight into a local slot / an array / an argument
    for op in ["==", "!=", "<", "<=", ">", ">=", ".."]:
        progs.append("fn g(a: string, b: string) {\n  let c = a %s b\n  println(c)\n  var d = b %s a\n  println(d)\n  let u = [a %s b, b %s a]\n  println(u)\n  println(h(a %s b))\n}\n"
                     "fn h(x) = x\ng(\"abc\", \"abc\")\ng(\"abc\", \"abd\")\ng(\"\", \"a\")\ng(\"h\u00e9\", \"h\u00e9\")\n" % (op, op, op, op, op))
    return progs


# control-flow shapes the jump / label rules of the optimizer see: empty blocks, catch-all arms, short-circuit operators,
# break/continue, conditions consumed directly by a jump
CONTROL_FLOW = [
    "fn pick(c: bool) {\n  var r = \"then\"\n  if c { } else { r = \"else\" }\n  println(r)\n}\npick(true)\npick(false)\n",
    "fn pick(c: bool) {\n  var r = \"skip\"\n  if c { r = \"then\" } else { }\n  println(r)\n}\npick(true)\npick(false)\n",
    "fn pick(c: bool) {\n  var r = \"none\"\n  if not c { r = \"not\" }\n  println(r)\n}\npick(true)\npick(false)\n",
    "let a = [0]\nfn step(a: array<int>) -> bool {\n  a[0] = a[0] + 1\n  a[0] < 4\n}\nwhile step(a) { }\nprintln(a[0])\n",
    "let a = [0]\nfn step(a: array<int>) -> bool {\n  a[0] = a[0] + 1\n  a[0] >= 4\n}\nwhile not step(a) { }\nprintln(a[0])\n",
    "fn m(x: int) = match x {\n  1 -> \"one\"\n  _ -> \"other\"\n}\nprintln(m(1))\nprintln(m(2))\n",
    "fn m(x: bool) = match x {\n  true -> \"t\"\n  false -> \"f\"\n}\nprintln(m(true))\nprintln(m(false))\n",
    "fn m(x: option<int>) = match x {\n  .some(1) -> \"one\"\n  .some(_) -> \"some\"\n  .none -> \"none\"\n}\nprintln(m(.some(1)))\nprintln(m(.some(5)))\nprintln(m(.none))\n",
    "fn f(a: bool, b: bool) {\n  if a and b { println(\"and\") } else { println(\"nand\") }\n  if a or b { println(\"or\") } else { println(\"nor\") }\n}\nf(true, true)\nf(true, false)\nf(false, true)\nf(false, false)\n",
    "fn f(n: int) {\n  var i = 0\n  var s = 0\n  while true {\n    i = i + 1\n    if i > n { break }\n    if i % 2 == 0 { continue }\n    s = s + i\n  }\n  println(s)\n}\nf(0)\nf(1)\nf(7)\n",
    "fn f(x: int) -> string {\n  if x < 0 { return \"neg\" }\n  if x == 0 { return \"zero\" } else { }\n  if x < 10 { \"small\" } else if x < 100 { \"medium\" } else { \"large\" }\n}\nprintln(f(-1))\nprintln(f(0))\nprintln(f(5))\nprintln(f(50))\nprintln(f(500))\n",
    "fn f(xs: array<int>) {\n  var n = 0\n  for x in xs {\n    if x > 2 { } else { n = n + 1 }\n  }\n  println(n)\n}\nf([1, 2, 3, 4])\nf([])\n",
]


def build_noopt():
    d = tempfile.mkdtemp(prefix="abra-noopt.")
    subprocess.run(["rsync", "-a", "--exclude", "target", "--exclude", ".git", REPO + "/", d + "/"], check=True)
    f = os.path.join(d, "abra_core/src/translate_bytecode.rs")
    s = open(f).read()
    old = "st.lines = optimize(st.lines);"
    if s.count(old) != 1:
        shutil.rmtree(d, ignore_errors=True)
        return None, None
    open(f, "w").write(s.replace(old, "let _ = optimize; // optimizer disabled for the differential replay"))
    env = dict(os.environ, CARGO_NET_OFFLINE="true", CARGO_TARGET_DIR=os.path.join(d, "target"))
    p = subprocess.run(["cargo", "build", "-p", "abra_cli", "--offline", "--quiet"], cwd=d, capture_output=True, text=True, env=env)
    if p.returncode != 0:
        shutil.rmtree(d, ignore_errors=True)
        return None, None
    return d, os.path.join(d, "target", "debug", "abra")


def _run(binary, modules, src):
    with tempfile.TemporaryDirectory(prefix="abra-optdiff.") as t:
        f = os.path.join(t, "main.abra")
        open(f, "w").write(src)
        try:
            p = subprocess.run([binary, "--standard-modules", modules, f], capture_output=True, text=True, timeout=60)
        except subprocess.TimeoutExpired:
            return ("TIMEOUT", -1)
        err = re.sub(r"thread 'main' \(\d+\)", "thread 'main'", p.stderr).replace(t, "")
        first = err.strip().split("\n")[0] if p.returncode != 0 else ""
        return (p.stdout + "|" + first, p.returncode)


def differential():
    """(first disagreement or None, number of programs)."""
    real = abra_cli.build()
    d, noopt = build_noopt()
    if not noopt:
        return None, 0
    try:
        progs = corpus()
        mods = os.path.join(REPO, "modules")
        for src in progs:
            a = _run(real, mods, src)
            b = _run(noopt, mods, src)
            if a != b:
                return dict(program=src, optimized=dict(output=a[0][:600], exit=a[1]), unoptimized=dict(output=b[0][:600], exit=b[1])), len(progs)
        return None, len(progs)
    finally:
        shutil.rmtree(d, ignore_errors=True)
